"""C15 — action distributions are coherent probability laws.

Discrete laws (Categorical, Bernoulli, MultiCategorical) are decided in LOG mode: logits are log P_i with P_i > 0, the
traced log_softmax / softmax / sigmoid / softplus code becomes rational functions in fraction normal form, and
`prob = exp(log_prob)`, `total mass = 1`, `entropy = -sum p log p`, `product law = sum of components` are NRA facts
(the discrete sample point is case-split over its finite range, parameters stay symbolic).  Continuous laws (Normal,
MultivariateNormalDiag, SquashedNormal, SquashedMultivariateNormalDiag) are decided in REAL mode modulo the
uninterpreted transcendentals, except the squashing clauses that need `log(sigmoid(x)/(1-sigmoid(x))) = x`: those run in
LOG mode with `log`/`exp` inverse axioms, including the Jacobian identity with f' obtained from JAX autodiff of the real
bijector.  Which index discrete samplers return is decided over reals with IEEE special values (XREAL) with the PRNG
samplers replaced by contract stubs.
"""
import itertools
from fractions import Fraction

import jax
import jax.numpy as jnp
import numpy as np
import z3
from jax import random as jr

from jaxsmt import concrete, solve, stubs
from jaxsmt.core import Check, conj, disj, eq_arr, eq_elem, implies, neg
from jaxsmt.distharness import judge_replay, replay_real, uf_terms, val
from jaxsmt.interp import Interp, arr0
from jaxsmt.logmode import Frac, LogInterp, LogVal, log_exp_inverse_axioms
from jaxsmt.ops import isconc
from jaxsmt.trace import trace
from jaxsmt.xreal import XRInterp, div_axioms

from lerax.distribution import (Bernoulli, Categorical, MultiCategorical, MultivariateNormalDiag, Normal, SquashedMultivariateNormalDiag, SquashedNormal)

f32 = lambda *a: jnp.asarray(a[0] if len(a) == 1 else a, dtype=jnp.float32)
XB = 9   # |pre-squash value| <= 9: below -9 distreqx's Sigmoid switches to asymptotic approximations (not identities over the reals)


def between(xs, lo, hi):
    """replay-robustness region: counterexamples are first looked for among tame inputs (margin query of ck.prove), so that what the
    solver finds modulo the uninterpreted transcendentals survives on the real code; the obligation itself is unrestricted"""
    return [z3.And(x >= lo, x <= hi) for x in xs if not isconc(x)]


def mg(tame, goal):
    return implies(conj(tame), goal) if tame else None


# ===================================================================== LOG-mode helpers
def expL(o, x):
    """exp of a LOG-mode element as a plain term"""
    return o.lower(o.exp(x))


def low(o, x):
    return o.lower(x)


def case_runs(tr, mk_interp, given_fn, points):
    """interpret the traced function once per concrete sample point (parameters shared and symbolic)"""
    it = mk_interp()
    outs = {}
    base = given_fn(it)
    for v in points:
        g = dict(base)
        g["v"] = np.asarray(v, dtype=object) if np.ndim(v) else arr0(int(v))
        if np.ndim(v):
            a = np.empty(np.shape(v), dtype=object)
            for i in np.ndindex(*a.shape):
                a[i] = int(np.asarray(v)[i])
            g["v"] = a
        S = tr.symbols(it, given=g)
        outs[tuple(np.ravel(v).tolist())] = tr.run(it, S)
    return it, S, outs


def multi_replay(tr, S, it, points, overrides, judge):
    """replay for case-split obligations: real code at every sample point, same parameters"""
    def rp(res):
        runs = {}
        ins = None
        for v in points:
            ov = dict(overrides)
            ov["v"] = (lambda vv: (lambda r: np.asarray(vv)))(v)
            o_, ins = replay_real(tr, S, res, it.uf_apps, ov)
            runs[tuple(np.ravel(v).tolist())] = o_
        bad, detail = judge(runs, ins)
        info = {"function": tr.label, "parameters": {k: np.asarray(x).reshape(-1)[:10].tolist() for k, x in ins.items() if k != "v"},
                "real_outputs": {str(k): {n: np.asarray(x).reshape(-1)[:6].tolist() for n, x in o_.items()} for k, o_ in list(runs.items())[:8]}}
        info.update(detail)
        return bool(bad), info
    return rp


def jexp(outs, ins):
    p, lp = np.asarray(outs["p"], float), np.asarray(outs["lp"], float)
    return (np.shape(p) != np.shape(lp) or not np.allclose(p, np.exp(lp), rtol=1e-3, atol=1e-6)), {"prob": p.tolist(), "exp(log_prob)": np.exp(lp).tolist()}


# ===================================================================== Categorical
def cat_fn(l, v):
    d = Categorical(logits=l)
    return {"lp": d.log_prob(v), "p": d.prob(v), "ent": d.entropy()}


def catp_fn(q, v):
    d = Categorical(probs=q)
    return {"lp": d.log_prob(v), "p": d.prob(v), "ent": d.entropy()}


def judge_discrete(support, outside):
    def j(runs, ins):
        bad, why = False, []
        mass = 0.0
        ent_ref = 0.0
        ent = None
        for k in support + outside:
            r = runs[k]
            p, lp = np.asarray(r["p"], float), np.asarray(r["lp"], float)
            if not np.allclose(p, np.exp(lp), rtol=1e-3, atol=1e-5):
                bad = True
                why.append(f"prob != exp(log_prob) at {k}: {p.tolist()} vs {np.exp(lp).tolist()}")
            ent = np.asarray(r["ent"], float)
        for k in support:
            p, lp = np.asarray(runs[k]["p"], float), np.asarray(runs[k]["lp"], float)
            mass = mass + p
            ent_ref = ent_ref - np.where(p == 0, 0.0, p * np.where(p == 0, 0.0, lp))
        if not np.allclose(mass, 1.0, atol=1e-4):
            bad = True
            why.append(f"total mass {np.asarray(mass).tolist()}")
        for k in outside:
            if np.any(np.abs(np.asarray(runs[k]["p"], float)) > 1e-6):
                bad = True
                why.append(f"mass outside the support at {k}")
        if not np.allclose(ent, ent_ref, rtol=1e-3, atol=1e-4):
            bad = True
            why.append(f"entropy {np.asarray(ent).tolist()} vs -sum p log p {np.asarray(ent_ref).tolist()}")
        return bad, {"failed": why}
    return j


def discrete_obligations(ck, name, tag, it, outs, support, outside, asm, rp, entropy=True, tame=()):
    o = it.o
    P = {k: low(o, outs[k]["p"][()]) for k in support + outside}
    LP = {k: outs[k]["lp"][()] for k in support + outside}
    g1 = [eq_elem(P[k], expL(o, LP[k])) for k in support + outside]
    tame = list(tame)
    side = conj(it.side_conds())      # (after every lowering: lowering records its own side conditions)
    ck.prove(f"{name}.prob_is_exp_logprob@{tag}", asm, conj([side] + g1), replay=rp, nonlinear=True, margin_goal=mg(tame, conj([side] + g1)))
    tot = 0
    for k in support:
        tot = o.add(tot, outs[k]["p"][()])
    tot = low(o, tot)
    side = conj(it.side_conds())
    gm = conj([side, eq_elem(tot, Fraction(1))] + [eq_elem(P[k], Fraction(0)) for k in outside])
    ck.prove(f"{name}.mass_one@{tag}", asm, gm, replay=rp, nonlinear=True, margin_goal=mg(tame, gm))
    if entropy:
        ent = low(o, outs[support[0]]["ent"][()])
        ref = 0
        for k in support:
            lpk = low(o, LP[k])
            term = z3.If(P[k] == 0, 0, P[k] * (lpk if not isinstance(lpk, float) else 0)) if not isconc(P[k]) else (0 if P[k] == 0 else P[k] * lpk)
            ref = ref - term
        side = conj(it.side_conds())
        ck.prove(f"{name}.entropy_def@{tag}", asm, conj([side, eq_elem(ent, ref)]), replay=rp, nonlinear=True, margin_goal=mg(tame, conj([side, eq_elem(ent, ref)])))
    return P, LP


def sec_categorical(ck, K):
    tr = trace(cat_fn, jnp.zeros(K), jnp.array(0), argnames=["l", "v"], label="Categorical(logits).log_prob/prob/entropy")
    if K == 3:
        ck.encoded(tr)
        concrete.validate(ck, tr, n=2, seed=ck.seed)
    support = [(k,) for k in range(K)]
    outside = [(-1,), (K,)]
    Ps = []

    def given(it):
        l, ps = it.logsym("P", (K,))
        Ps[:] = ps
        return {"l": l}
    it, S, outs = case_runs(tr, LogInterp, given, [k[0] for k in support + outside])
    asm = [p > 0 for p in Ps]
    ov = {"l": lambda res: np.log([max(val(res, p), 1e-30) for p in Ps])}
    rp = multi_replay(tr, S, it, [k[0] for k in support + outside], ov, judge_discrete(support, outside))
    P, LP = discrete_obligations(ck, "categorical", f"K={K}", it, outs, support, outside, asm, rp, tame=between(Ps, Fraction(1, 2), 2))
    if K == 3:
        ck.witness("witness.categorical.params", asm + it.side_conds(), nonlinear=True)
        ck.control("control.categorical.uniform_mass", asm, conj([eq_elem(P[k], Fraction(1, K)) for k in support]), nonlinear=True)
        ck.control("control.categorical.entropy_without_sign", asm, eq_elem(low(it.o, outs[(0,)]["ent"][()]), sum(P[k] * low(it.o, LP[k]) for k in support)), nonlinear=True)
        # probs parameterisation (zero probabilities allowed)
        trp = trace(catp_fn, jnp.ones(K) / K, jnp.array(0), argnames=["q", "v"], label="Categorical(probs).log_prob/prob/entropy")
        ck.encoded(trp)
        itp, Sp, outp = case_runs(trp, LogInterp, lambda it_: {}, [k[0] for k in support + outside])
        q = list(Sp["q"])
        asmp = [x >= 0 for x in q] + [sum(q) > 0]
        rpp = multi_replay(trp, Sp, itp, [k[0] for k in support + outside], {}, judge_discrete(support, outside))
        discrete_obligations(ck, "categorical", f"probs,K={K}", itp, outp, support, outside, asmp, rpp, tame=between(q, Fraction(1, 4), 1))


# ===================================================================== Bernoulli
def bern_fn(l, v):
    d = Bernoulli(logits=l)
    return {"lp": d.log_prob(v), "p": d.prob(v), "ent": d.entropy()}


def bernp_fn(q, v):
    d = Bernoulli(probs=q)
    return {"lp": d.log_prob(v), "p": d.prob(v), "ent": d.entropy()}


def sec_bernoulli(ck):
    for kind in ("logits", "probs"):
        fn = bern_fn if kind == "logits" else bernp_fn
        tr = trace(fn, jnp.zeros(()) + 0.5, jnp.array(0, jnp.int8), argnames=["l" if kind == "logits" else "q", "v"], label=f"Bernoulli({kind}).log_prob/prob/entropy")
        ck.encoded(tr)
        Es = []

        def given(it):
            if kind == "probs":
                return {}
            l, es = it.logsym("E", ())
            Es[:] = es
            return {"l": l}
        it, S, outs = case_runs(tr, LogInterp, given, [0, 1])
        if kind == "logits":
            asm = [e > 0 for e in Es]
            ov = {"l": lambda res: np.log(max(val(res, Es[0]), 1e-30))}
            tame = between(Es, Fraction(1, 2), 2)
        else:
            q = S["q"][()]
            asm = [q > 0, q < 1]
            ov = {}
            tame = between([q], Fraction(1, 4), Fraction(3, 4))
        rp = multi_replay(tr, S, it, [0, 1], ov, judge_discrete([(0,), (1,)], []))
        discrete_obligations(ck, "bernoulli", kind, it, outs, [(0,), (1,)], [], asm, rp, tame=tame)


# ===================================================================== MultiCategorical (sequence parameterisation) and its components
DIMS = (2, 3)


def _blocks(dims):
    offs = np.cumsum((0,) + tuple(dims[:-1])).tolist()
    return list(zip(offs, dims))


def mc_seq_fn_for(dims):
    bl = _blocks(dims)

    def f(l, v):
        d = MultiCategorical([l[o:o + n] for o, n in bl])
        return {"lp": d.log_prob(v), "p": d.prob(v), "ent": d.entropy()}
    return f


def mc_comp_fn_for(dims):
    bl = _blocks(dims)

    def f(l, v):
        cs = [Categorical(logits=l[o:o + n]) for o, n in bl]
        out = {}
        for i, c in enumerate(cs):
            out[f"lp{i}"] = c.log_prob(v[i])
            out[f"ent{i}"] = c.entropy()
        return out
    return f


def sec_multicat(ck, dims=DIMS):
    import itertools
    dims = tuple(dims)
    tag = "dims=(" + ",".join(map(str, dims)) + ")"
    N, C = sum(dims), len(dims)
    bl = _blocks(dims)
    tr = trace(mc_seq_fn_for(dims), jnp.zeros(N), jnp.zeros(C, int), argnames=["l", "v"], label=f"MultiCategorical(sequence logits, {tag}).log_prob/prob/entropy")
    trc = trace(mc_comp_fn_for(dims), jnp.zeros(N), jnp.zeros(C, int), argnames=["l", "v"], label="component Categoricals of the product law")
    ck.encoded(tr, trc)
    concrete.validate(ck, tr, n=2, seed=ck.seed)
    support = list(itertools.product(*[range(n) for n in dims]))
    outside = [tuple([dims[0]] + [0] * (C - 1)), tuple([0] * (C - 1) + [-1])]
    Ps = []

    def given(it):
        l, ps = it.logsym("P", (N,))
        Ps[:] = ps
        return {"l": l}
    pts = [np.array(k) for k in support + outside]
    it, S, outs = case_runs(tr, LogInterp, given, pts)
    asm = [p > 0 for p in Ps]
    ov = {"l": lambda res: np.log([max(val(res, p), 1e-30) for p in Ps])}
    rp = multi_replay(tr, S, it, pts, ov, judge_discrete(support, outside))
    tame = between(Ps, Fraction(1, 2), 2)
    P, LP = discrete_obligations(ck, "multicat", tag, it, outs, support, outside, asm, rp, entropy=False, tame=tame)
    # product law: log-probability and entropy are the sums over the independent components
    o = it.o
    gs = []
    comp = {}
    for k in support:
        v = np.empty(C, dtype=object)
        for i in range(C):
            v[i] = int(k[i])
        comp[k] = trc.run(it, trc.symbols(it, given={"l": S["l"], "v": v}))
        ssum = comp[k]["lp0"][()]
        for i in range(1, C):
            ssum = o.add(ssum, comp[k][f"lp{i}"][()])
        gs.append(eq_elem(expL(o, LP[k]), expL(o, ssum)))
    ent = low(o, outs[support[0]]["ent"][()])
    ents = low(o, comp[support[0]]["ent0"][()])
    for i in range(1, C):
        ents = o.add(ents, low(o, comp[support[0]][f"ent{i}"][()]))

    def judge_prod(runs, ins):
        l = np.asarray(ins["l"], float)
        ls = [l[o_:o_ + n] - np.log(np.exp(l[o_:o_ + n]).sum()) for o_, n in bl]
        bad, why = False, []
        for k in support:
            want = sum(ls[i][k[i]] for i in range(C))
            if abs(float(runs[k]["lp"]) - want) > 1e-3:
                bad = True
                why.append(f"log_prob{k} = {float(runs[k]['lp'])}, sum of components {want}")
        e = -sum(float(np.sum(np.exp(x) * x)) for x in ls)
        if abs(float(runs[support[0]]["ent"]) - e) > 1e-3:
            bad = True
            why.append(f"entropy {float(runs[support[0]]['ent'])} vs sum of component entropies {e}")
        return bad, {"failed": why[:6]}
    gp = conj([conj(it.side_conds())] + gs + [eq_elem(ent, ents)])
    ck.prove(f"multicat.product_sum@{tag}", asm, gp, replay=multi_replay(tr, S, it, pts, ov, judge_prod), nonlinear=True, margin_goal=mg(tame, gp))
    # batched values: prob / log_prob act row by row (leading axes of `value` are batch axes)
    rows = [support[-1], support[0], support[len(support) // 2]]
    B = len(rows)
    trb = trace(mc_seq_fn_for(dims), jnp.zeros(N), jnp.zeros((B, C), int), argnames=["l", "v"], label=f"MultiCategorical(sequence logits, {tag}).log_prob/prob over a batch of {B} values")
    V = np.array(rows)
    itb, Sb, outb = case_runs(trb, LogInterp, lambda it_: {"l": S["l"]}, [V])
    ob = outb[tuple(np.ravel(V).tolist())]
    okshape = tuple(np.shape(ob["p"])) == (B,) and tuple(np.shape(ob["lp"])) == (B,)
    ck.fact(f"multicat.batched_shapes@{tag}", okshape, f"prob{np.shape(ob['p'])} log_prob{np.shape(ob['lp'])} for values of shape {(B, C)}")
    if okshape:
        ob_ = itb.o
        gb = []
        for b, k in enumerate(rows):
            gb.append(eq_elem(low(ob_, ob["p"][b]), P[k]))
            gb.append(eq_elem(expL(ob_, ob["lp"][b]), expL(o, LP[k])))

        def rpb(res):
            ins = {"l": ov["l"](res)}
            real = mc_seq_fn_for(dims)(jnp.asarray(ins["l"], jnp.float32), jnp.asarray(V))
            ref = [mc_seq_fn_for(dims)(jnp.asarray(ins["l"], jnp.float32), jnp.asarray(r)) for r in rows]
            pb, pr = np.asarray(real["p"], float), np.array([float(r["p"]) for r in ref])
            lb, lr = np.asarray(real["lp"], float), np.array([float(r["lp"]) for r in ref])
            bad = pb.shape != pr.shape or lb.shape != lr.shape or not np.allclose(pb, pr, rtol=1e-3, atol=1e-6) or not np.allclose(lb, lr, rtol=1e-3, atol=1e-5)
            return bool(bad), {"function": trb.label, "logits": np.asarray(ins["l"]).tolist(), "values": V.tolist(), "batched prob": pb.tolist(), "row-wise prob": pr.tolist(),
                               "batched log_prob": lb.tolist(), "row-wise log_prob": lr.tolist()}
        gbb = conj([conj(itb.side_conds()), conj(it.side_conds())] + gb)
        ck.prove(f"multicat.batched_rowwise@{tag},B={B}", asm, gbb, replay=rpb, nonlinear=True, margin_goal=mg(tame, gbb))
    if dims == DIMS:
        ck.control("control.multicat.logprob_is_first_component", asm, conj([eq_elem(expL(o, LP[k]), expL(o, comp[k]["lp0"][()])) for k in support]), nonlinear=True)


# ===================================================================== flat parameterisation == sequence parameterisation
def mc_all(dims, flat):
    blocks = list(zip(np.cumsum((0,) + tuple(dims[:-1])).tolist(), dims))

    def f(l, v, key):
        with stubs.prng_stubs():
            d = MultiCategorical(l, action_dims=dims) if flat else MultiCategorical([l[o:o + n] for o, n in blocks])
            s, slp = d.sample_and_log_prob(key)
            return {"lp": d.log_prob(v), "p": d.prob(v), "ent": d.entropy(), "probs": d.probs, "logits": d.logits, "mode": d.mode(), "sample": d.sample(key), "slp_s": s, "slp_lp": slp}
    return f


def mc_probs(dims, flat):
    blocks = list(zip(np.cumsum((0,) + tuple(dims[:-1])).tolist(), dims))

    def f(q, v):
        d = MultiCategorical(probs=q, action_dims=dims) if flat else MultiCategorical(probs=[q[o:o + n] for o, n in blocks])
        return {"lp": d.log_prob(v), "ent": d.entropy(), "probs": d.probs, "mode": d.mode()}
    return f


def jit_probe(fn, *args):
    try:
        jax.clear_caches()
        jax.block_until_ready(jax.jit(fn)(*args))
        return True, "runs under jax.jit"
    except Exception as ex:  # noqa: BLE001
        return False, f"{type(ex).__name__}: {str(ex)[:300]}"
    finally:
        jax.clear_caches()


def sec_flat_eq_sequence(ck, dims):
    N, C = sum(dims), len(dims)
    dt = "(" + ",".join(map(str, dims)) + ")"
    ok, why = jit_probe(lambda l: MultiCategorical(l, action_dims=dims).log_prob(jnp.zeros(C, int)), jnp.zeros(N))
    if not ck.fact(f"multicat.flat_eq_sequence.usable_under_jit@dims={dt}", ok,
                   f"MultiCategorical(flat logits, action_dims={dt}) inside jax.jit (the sequence form works): " + why):
        ck.skip(f"multicat.flat_eq_sequence@dims={dt}", "the flat parameterisation cannot be traced, so it cannot be compared with the sequence one")
        return
    args = (jnp.zeros(N), jnp.zeros(C, int), jr.key(0))
    trf = trace(mc_all(dims, True), *args, argnames=["l", "v", "key"], label=f"MultiCategorical(flat logits, action_dims={dt}) — all methods")
    trs = trace(mc_all(dims, False), *args, argnames=["l", "v", "key"], label=f"MultiCategorical(sequence logits {dt}) — all methods")
    ck.encoded(trf, trs)
    concrete.validate(ck, trf, n=2, seed=ck.seed)
    it = XRInterp()
    S = trf.symbols(it)
    of = trf.run(it, S)
    os_ = trs.run(it, S)
    v = list(S["v"])
    inr = lambda vv: [z3.And(vv[c] >= 0, vv[c] < dims[c]) for c in range(C)]
    asm = inr(v) + stubs.contracts(it)
    names = ["lp", "p", "ent", "probs", "logits", "mode", "sample", "slp_s", "slp_lp"]

    def rp(res):
        a, ins = replay_real(trf, S, res, it.uf_apps)
        b, _ = replay_real(trs, S, res, it.uf_apps)
        diffs = {n: [np.asarray(a[n]).reshape(-1).tolist(), np.asarray(b[n]).reshape(-1).tolist()] for n in names
                 if np.shape(a[n]) != np.shape(b[n]) or not np.allclose(a[n], b[n], rtol=1e-4, atol=1e-5, equal_nan=True)}
        return bool(diffs), {"flat_vs_sequence": diffs, "inputs": {k: np.asarray(x).reshape(-1).tolist() for k, x in ins.items()}}
    from props.C16 import xeq_arr
    gf = conj([xeq_arr(it.o, of[n], os_[n]) for n in names])
    ck.prove(f"multicat.flat_eq_sequence@dims={dt}", asm, gf, replay=rp, margin_goal=mg(between(list(S["l"]), -2, 2), gf))
    # probs parameterisation
    trfp = trace(mc_probs(dims, True), jnp.ones(N) / 2, jnp.zeros(C, int), argnames=["q", "v"], label=f"MultiCategorical(flat probs, action_dims={dt})")
    trsp = trace(mc_probs(dims, False), jnp.ones(N) / 2, jnp.zeros(C, int), argnames=["q", "v"], label=f"MultiCategorical(sequence probs {dt})")
    itp = XRInterp()
    Sp = trfp.symbols(itp)
    ofp, osp = trfp.run(itp, Sp), trsp.run(itp, Sp)

    def rpp(res):
        a, ins = replay_real(trfp, Sp, res, itp.uf_apps)
        b, _ = replay_real(trsp, Sp, res, itp.uf_apps)
        diffs = {n: [np.asarray(a[n]).reshape(-1).tolist(), np.asarray(b[n]).reshape(-1).tolist()] for n in a if not np.allclose(a[n], b[n], rtol=1e-4, atol=1e-5, equal_nan=True)}
        return bool(diffs), {"flat_vs_sequence": diffs, "inputs": {k: np.asarray(x).reshape(-1).tolist() for k, x in ins.items()}}
    gq = conj([xeq_arr(itp.o, ofp[n], osp[n]) for n in ofp])
    ck.prove(f"multicat.flat_eq_sequence@probs,dims={dt}", [x > 0 for x in Sp["q"]] + inr(list(Sp["v"])), gq, replay=rpp, margin_goal=mg(between(list(Sp["q"]), Fraction(1, 4), 1), gq))
    if C == 2:
        ck.control("control.multicat.flat_components_swapped", asm, xeq_arr(it.o, of["mode"], os_["mode"][::-1]))


# ===================================================================== discrete samplers: support and sample/log-prob consistency (XREAL)
def cat_sel(l, key, a):
    with stubs.prng_stubs():
        d = Categorical(logits=l)
        s, slp = d.sample_and_log_prob(key)
        return {"mode": d.mode(), "sample": d.sample(key), "slp_s": s, "slp_lp": slp, "lp_of_a": d.log_prob(a)}


def bern_sel(l, key, a):
    with stubs.prng_stubs():
        d = Bernoulli(logits=l)
        s, slp = d.sample_and_log_prob(key)
        return {"mode": d.mode(), "sample": d.sample(key), "slp_s": s, "slp_lp": slp, "lp_of_a": d.log_prob(a)}


def mcs_sel(l, key, a):
    with stubs.prng_stubs():
        d = MultiCategorical([l[:2], l[2:]])
        s, slp = d.sample_and_log_prob(key)
        return {"mode": d.mode(), "sample": d.sample(key), "slp_s": s, "slp_lp": slp, "lp_of_a": d.log_prob(a)}


def mcs_sel3(l, key, a):
    with stubs.prng_stubs():
        d = MultiCategorical(l, action_dims=(2, 3, 2))
        s, slp = d.sample_and_log_prob(key)
        return {"mode": d.mode(), "sample": d.sample(key), "slp_s": s, "slp_lp": slp, "lp_of_a": d.log_prob(a)}


def sec_discrete_select(ck, Ks):
    from props.C16 import xeq_arr
    cases = [(f"categorical", f"K={K}", cat_sel, jnp.zeros(K), jnp.array(0, jnp.int8), [(0, K)], lambda l, a: Categorical(logits=l).log_prob(a)) for K in Ks]
    cases += [("bernoulli", "n=2", bern_sel, jnp.zeros(2), jnp.zeros(2, jnp.int8), [(0, 2), (0, 2)], lambda l, a: Bernoulli(logits=l).log_prob(a)),
              ("multicat", "dims=(2,3)", mcs_sel, jnp.zeros(5), jnp.zeros(2, jnp.int8), [(0, 2), (0, 3)], lambda l, a: MultiCategorical([l[:2], l[2:]]).log_prob(a)),
              ("multicat", "dims=(2,3,2)", mcs_sel3, jnp.zeros(7), jnp.zeros(3, jnp.int8), [(0, 2), (0, 3), (0, 2)], lambda l, a: MultiCategorical(l, action_dims=(2, 3, 2)).log_prob(a))]
    for name, tag, fn, l0, a0, ranges, lpref in cases:
        tr = trace(fn, l0, jr.key(0), a0, argnames=["l", "key", "a"], label=f"{name}: mode/sample/sample_and_log_prob/log_prob")
        ck.encoded(tr)
        if tag in ("K=3", "n=2", "dims=(2,3)", "dims=(2,3,2)"):
            concrete.validate(ck, tr, n=2, seed=ck.seed, gen=lambda n, av, rng: (jnp.zeros(av.shape, av.dtype) if n == "a" else None))
        it = XRInterp()
        S = tr.symbols(it)
        out = tr.run(it, S)
        asm = stubs.contracts(it)
        inr = []
        for nm in ("mode", "sample", "slp_s"):
            xs = list(out[nm].reshape(-1))
            inr += [conj([x >= lo, x < hi]) if not isconc(x) else (lo <= x < hi) for x, (lo, hi) in zip(xs, ranges)]

        def jsup(outs, ins, ranges=ranges):
            bad = False
            for nm in ("mode", "sample", "slp_s"):
                xs = np.asarray(outs[nm]).reshape(-1)
                bad = bad or any(not (lo <= x < hi) for x, (lo, hi) in zip(xs, ranges))
            return bad, {}
        tame = between(list(S["l"].reshape(-1)), -2, 2)
        ck.prove(f"{name}.support@{tag}", asm, conj(inr), replay=judge_replay(tr, S, it.uf_apps, jsup), margin_goal=mg(tame, conj(inr)))
        # the log-probability returned with a sample is the log-probability of that sample
        o2 = tr.run(it, tr.symbols(it, given={"l": S["l"], "key": S["key"], "a": out["slp_s"]}))

        def jcons(outs, ins, lpref=lpref):
            l = jnp.asarray(np.asarray(ins["l"], np.float32))
            a = jnp.asarray(np.asarray(outs["slp_s"]).astype(np.int8))
            want = np.asarray(lpref(l, a), float)
            got = np.asarray(outs["slp_lp"], float)
            return (not np.allclose(got, want.reshape(got.shape), rtol=1e-3, atol=1e-4)), {"returned_log_prob": got.tolist(), "log_prob_of_returned_sample": want.tolist()}
        # (that sample(key) and sample_and_log_prob(key)[0] coincide is not part of the statement: a note only)
        gc = xeq_arr(it.o, out["slp_lp"], o2["lp_of_a"])
        ck.notes.append(f"{name}@{tag}: sample(key) and sample_and_log_prob(key)[0] are the same term: {isconc(xeq_arr(it.o, out['slp_s'], out['sample'])) and bool(xeq_arr(it.o, out['slp_s'], out['sample']))}")
        ck.prove(f"{name}.sample_logprob_consistent@{tag}", asm, gc, replay=judge_replay(tr, S, it.uf_apps, jcons), margin_goal=mg(tame, gc))


# ===================================================================== product law with classes of probability exactly zero (XREAL: log 0 = -inf, 0 * inf = NaN)
def mc_zero_probs(q):
    d = MultiCategorical(probs=[q[:2], q[2:]])
    comps = [Categorical(probs=q[:2]), Categorical(probs=q[2:])]
    return {"ent": d.entropy(), "ent_components": comps[0].entropy() + comps[1].entropy(), "mass": jnp.sum(jnp.stack([d.prob(jnp.array([i, j])) for i in range(2) for j in range(3)]))}


def mc_zero_masked(l, m):
    d = MultiCategorical([l[:2], l[2:]]).mask(m)
    comps = [Categorical(logits=l[:2]).mask(m[:2]), Categorical(logits=l[2:]).mask(m[2:])]
    return {"ent": d.entropy(), "ent_components": comps[0].entropy() + comps[1].entropy(), "mass": jnp.sum(jnp.stack([d.prob(jnp.array([i, j])) for i in range(2) for j in range(3)]))}


def sec_zero_mass(ck):
    """entropy = -E[log p] is defined (0 log 0 = 0) and is the sum over the components also when classes have probability exactly 0 (probs with zeros, masked laws)"""
    from props.C16 import xeq
    cases = [("probs_with_zeros", mc_zero_probs, (jnp.ones(5) / 2,), ["q"]), ("masked", mc_zero_masked, (jnp.zeros(5), jnp.ones(5, bool)), ["l", "m"])]
    for tag, fn, ex, names in cases:
        tr = trace(fn, *ex, argnames=names, label=f"MultiCategorical(2,3) with zero-probability classes ({tag}): entropy, component entropies, total mass")
        ck.encoded(tr)
        it = XRInterp()
        S = tr.symbols(it)
        out = tr.run(it, S)
        if tag == "masked":
            l, m = list(S["l"]), list(S["m"])
            asm = [z3.Or(m[0], m[1]), z3.Or(m[2], m[3], m[4])] + [z3.And(x >= -4, x <= 4) for x in l]
            zero = z3.Or([z3.Not(x) for x in m])
            tame = [z3.Not(m[0]), m[1], m[2], z3.Not(m[3]), m[4]] + [x == 0 for x in l]
        else:
            q = list(S["q"])
            asm = [x >= 0 for x in q] + [q[0] + q[1] > 0, q[2] + q[3] + q[4] > 0]
            zero = z3.Or([x == 0 for x in q])
            tame = [q[0] == 0, q[1] == 1, q[2] == Fraction(1, 2), q[3] == 0, q[4] == Fraction(1, 2)]
        ent, entc = out["ent"][()], out["ent_components"][()]

        def judge(outs, ins):
            e, ec, ms = float(outs["ent"]), float(outs["ent_components"]), float(outs["mass"])
            bad = (not np.isfinite(e)) or abs(e - ec) > 1e-3 * (1 + abs(ec)) or abs(ms - 1) > 1e-3
            return bad, {"entropy": e, "sum_of_component_entropies": ec, "total_mass_over_the_support": ms}
        rp = judge_replay(tr, S, it.uf_apps, judge)
        g = conj([it.o.fin(ent), xeq(it.o, ent, entc)])
        ck.prove(f"multicat.entropy_defined_and_sum_of_components@{tag}", asm, g, replay=rp, margin_goal=implies(conj(tame), g))
        ck.witness(f"witness.multicat.zero_mass_classes_reachable@{tag}", asm + [zero])


# ===================================================================== product laws: the components are drawn independently
def _rand_atoms(t, acc=None, seen=None):
    """applications of stubbed samplers (RAND_*) inside a term: {(declaration name, term id): (declaration name, key term)}"""
    acc = {} if acc is None else acc
    seen = set() if seen is None else seen
    stack = [t]
    while stack:
        x = stack.pop()
        if not isinstance(x, z3.ExprRef) or x.get_id() in seen:
            continue
        seen.add(x.get_id())
        if z3.is_app(x):
            d = x.decl().name()
            if d.startswith("RAND_") and x.num_args() >= 1:
                acc[(d, x.get_id())] = (d, x.arg(0))
            stack.extend(x.children())
    return acc


def sec_independent_components(ck):
    """`samples follow the stated density` for a product law needs the component draws to be independent.  Under the PRNG contract (draws of distinct keys, and the
    elements of one draw, are independent; the same sampler applied to the same key returns the same numbers) that is: the sampler applications feeding two different
    components are different applications -- different element of one draw, or provably different keys, all derived from the caller's key."""
    cases = [("multicat.sample", "dims=(2,3)", lambda l, key: MultiCategorical([l[:2], l[2:]]).sample(key), jnp.zeros(5), 2),
             ("multicat.sample_and_log_prob", "dims=(2,3)", lambda l, key: MultiCategorical([l[:2], l[2:]]).sample_and_log_prob(key)[0], jnp.zeros(5), 2),
             ("multicat.sample", "flat,dims=(2,3,2)", lambda l, key: MultiCategorical(l, action_dims=(2, 3, 2)).sample(key), jnp.zeros(7), 3),
             ("multicat.sample_and_log_prob", "flat,dims=(2,3,2)", lambda l, key: MultiCategorical(l, action_dims=(2, 3, 2)).sample_and_log_prob(key)[0], jnp.zeros(7), 3),
             ("multicat.sample", "dims=(3,3)", lambda l, key: MultiCategorical([l[:3], l[3:]]).sample(key), jnp.zeros(6), 2),
             ("bernoulli.sample", "n=3", lambda l, key: Bernoulli(logits=l).sample(key), jnp.zeros(3), 3),
             ("mvn_diag.sample", "D=3", lambda l, key: MultivariateNormalDiag(l[:3], jnp.exp(l[3:])).sample(key), jnp.zeros(6), 3),
             ("mvn_diag.sample_and_log_prob", "D=3", lambda l, key: MultivariateNormalDiag(l[:3], jnp.exp(l[3:])).sample_and_log_prob(key)[0], jnp.zeros(6), 3),
             ("squashed_mvn_diag.sample", "D=2", lambda l, key: SquashedMultivariateNormalDiag(l[:2], jnp.exp(l[2:]), jnp.ones(2), -jnp.ones(2)).sample(key), jnp.zeros(4), 2),
             ("squashed_mvn_diag.sample_and_log_prob", "D=2", lambda l, key: SquashedMultivariateNormalDiag(l[:2], jnp.exp(l[2:]), jnp.ones(2), -jnp.ones(2)).sample_and_log_prob(key)[0], jnp.zeros(4), 2)]
    for name, tag, f, l0, C in cases:
        def fn(l, key, f=f):
            with stubs.prng_stubs():
                return f(l, key)
        tr = trace(fn, l0, jr.key(0), argnames=["l", "key"], label=f"{name} ({tag})")
        ck.encoded(tr)
        it = XRInterp() if name.startswith(("multicat", "bernoulli")) else Interp()
        S = tr.symbols(it)
        out = tr.run(it, S)
        comps = list(next(iter(out.values())).reshape(-1)) if isinstance(out, dict) else list(out[0].reshape(-1))
        atoms = [_rand_atoms(c) if not isconc(c) else {} for c in comps]
        k0 = S["key"].reshape(-1)[0] if hasattr(S["key"], "reshape") else S["key"]
        derived = all(any(x.get_id() == k0.get_id() for x in concrete.key_terms([k])) for a in atoms for (_, k) in a.values())
        ck.fact(f"{name}.every_component_is_drawn_from_the_callers_key@{tag}", len(comps) == C and all(len(a) >= 1 for a in atoms) and derived,
                f"{len(comps)} components; sampler applications per component {[sorted({d for d, _ in a.values()}) for a in atoms]}")
        goals, allkeys = [], []
        shared = False
        for i in range(len(atoms)):
            for j in range(i + 1, len(atoms)):
                if set(atoms[i]) & set(atoms[j]):
                    shared = True       # literally the same application feeds two components
                for (d1, k1) in atoms[i].values():
                    for (d2, k2) in atoms[j].values():
                        if d1 == d2:
                            goals.append(neg(k1 == k2))
                            allkeys += [k1, k2]

        def rp(res, tr=tr, l0=l0):
            from jaxsmt.uf import GenericWorld
            w = GenericWorld(seed=5)
            concrete.run_real(tr, [jnp.asarray(np.linspace(-0.5, 0.5, l0.shape[0]), jnp.float32), jr.key(7)], w)
            used = [(n, np.asarray(ops[0]).tobytes()) for n, ops, _ in w.calls if n.startswith("RAND_")]
            return len(set(used)) < len(used), {"function": tr.label, "sampler_calls": [(n, np.frombuffer(k, np.uint32).tolist()) for n, k in used],
                                                "observation": "two sampler calls of the real code received the same key: their draws are identical, not independent"}
        if shared:
            ck.fact(f"{name}.components_are_independent_draws@{tag}", False, "one and the same sampler application (same key, same element) feeds two components")
        elif goals:
            ck.prove(f"{name}.components_are_independent_draws@{tag}", concrete.key_axioms(allkeys), conj(goals), replay=rp)
        else:
            ck.fact(f"{name}.components_are_independent_draws@{tag}", True, "the components are different elements of one draw (independent by the sampler's contract)")


# ===================================================================== Normal / MultivariateNormalDiag (REAL modulo log/exp)
def normal_fn(loc, sc, v, key):
    with stubs.prng_stubs():
        d = Normal(loc, sc)
        s, slp = d.sample_and_log_prob(key)
        return {"lp": d.log_prob(v), "p": d.prob(v), "ent": d.entropy(), "mode": d.mode(), "sample": d.sample(key), "slp_s": s, "slp_lp": slp}


def mvn_fn(loc, sc, v, key):
    with stubs.prng_stubs():
        d = MultivariateNormalDiag(loc, sc)
        s, slp = d.sample_and_log_prob(key)
        comps = [Normal(loc[i], sc[i]) for i in range(loc.shape[0])]
        return {"lp": d.log_prob(v), "p": d.prob(v), "ent": d.entropy(), "mode": d.mode(), "sample": d.sample(key), "slp_s": s, "slp_lp": slp,
                "comp_lp": jnp.stack([c.log_prob(v[i]) for i, c in enumerate(comps)]), "comp_ent": jnp.stack([c.entropy() for c in comps])}


def sec_normal(ck):
    tr = trace(normal_fn, f32(0.), f32(1.), f32(0.5), jr.key(0), argnames=["loc", "sc", "v", "key"], label="Normal: log_prob/prob/entropy/sample/sample_and_log_prob")
    ck.encoded(tr)
    concrete.validate(ck, tr, n=2, seed=ck.seed, gen=lambda n, av, rng: (jnp.asarray(rng.uniform(0.5, 2.0), jnp.float32) if n == "sc" else None))
    it = Interp()
    S = tr.symbols(it)
    out = tr.run(it, S)
    sc = S["sc"][()]
    asm = [sc > 0] + stubs.contracts(it)
    ck.prove("normal.prob_is_exp_logprob", asm, eq_arr(out["p"], arr0(it.o.unary("exp", out["lp"][()]))), replay=judge_replay(tr, S, it.uf_apps, jexp))
    o2 = tr.run(it, tr.symbols(it, given={"loc": S["loc"], "sc": S["sc"], "key": S["key"], "v": out["slp_s"]}))

    def jcons(outs, ins):
        x, mu, s = float(outs["slp_s"]), float(ins["loc"]), float(ins["sc"])
        want = float(Normal(jnp.asarray(mu, jnp.float32), jnp.asarray(s, jnp.float32)).log_prob(jnp.asarray(x, jnp.float32)))
        return abs(float(outs["slp_lp"]) - want) > 1e-3 * (1 + abs(want)), {"returned_log_prob": float(outs["slp_lp"]), "log_prob_of_returned_sample": want}
    tame = between([S["loc"][()]] + uf_terms(it, "RAND_normal"), -1, 1) + between([sc], Fraction(3, 2), 2)
    gn = eq_arr(out["slp_lp"], o2["lp"])
    ck.prove("normal.sample_logprob_consistent", asm, gn, replay=judge_replay(tr, S, it.uf_apps, jcons), nonlinear=True, margin_goal=mg(tame, gn))
    ck.control("control.normal.logprob_ignores_scale", asm, eq_arr(out["slp_lp"], arr0(it.o.sub(o2["lp"][()], 1))), nonlinear=True)


def sec_mvn(ck, D):
    tr = trace(mvn_fn, jnp.zeros(D), jnp.ones(D), jnp.zeros(D) + 0.5, jr.key(0), argnames=["loc", "sc", "v", "key"], label=f"MultivariateNormalDiag[{D}] and its Normal components")
    ck.encoded(tr)
    if D == 2:
        concrete.validate(ck, tr, n=2, seed=ck.seed, gen=lambda n, av, rng: (jnp.asarray(rng.uniform(0.5, 2.0, size=av.shape), jnp.float32) if n == "sc" else None))
    it = Interp()
    S = tr.symbols(it)
    out = tr.run(it, S)
    asm = [s > 0 for s in S["sc"]] + stubs.contracts(it)
    ck.prove(f"mvn_diag.prob_is_exp_logprob@D={D}", asm, eq_arr(out["p"], arr0(it.o.unary("exp", out["lp"][()]))), replay=judge_replay(tr, S, it.uf_apps, jexp))
    slp, sent = 0, 0
    for i in range(D):
        slp = it.o.add(slp, out["comp_lp"][i])
        sent = it.o.add(sent, out["comp_ent"][i])

    def jprod(outs, ins):
        b1 = abs(float(outs["lp"]) - float(np.sum(outs["comp_lp"]))) > 1e-3 * (1 + abs(float(outs["lp"])))
        b2 = abs(float(outs["ent"]) - float(np.sum(outs["comp_ent"]))) > 1e-3
        return b1 or b2, {"log_prob": float(outs["lp"]), "sum_of_component_log_probs": float(np.sum(outs["comp_lp"])), "entropy": float(outs["ent"]), "sum_of_component_entropies": float(np.sum(outs["comp_ent"]))}
    tame = between(list(S["loc"]) + list(S["v"]) + uf_terms(it, "RAND_normal"), -1, 1) + between(list(S["sc"]), Fraction(3, 2), 2)
    gp = conj([eq_arr(out["lp"], arr0(slp)), eq_arr(out["ent"], arr0(sent)), eq_arr(out["mode"], S["loc"])])
    ck.prove(f"mvn_diag.product_sum@D={D}", asm, gp, replay=judge_replay(tr, S, it.uf_apps, jprod), nonlinear=True, margin_goal=mg(tame, gp))
    o2 = tr.run(it, tr.symbols(it, given={"loc": S["loc"], "sc": S["sc"], "key": S["key"], "v": out["slp_s"]}))

    def jcons(outs, ins):
        want = float(MultivariateNormalDiag(jnp.asarray(ins["loc"], jnp.float32), jnp.asarray(ins["sc"], jnp.float32)).log_prob(jnp.asarray(outs["slp_s"], jnp.float32)))
        return abs(float(outs["slp_lp"]) - want) > 1e-3 * (1 + abs(want)), {"returned_log_prob": float(outs["slp_lp"]), "log_prob_of_returned_sample": want}
    gc = eq_arr(out["slp_lp"], o2["lp"])
    ck.prove(f"mvn_diag.sample_logprob_consistent@D={D}", asm, gc, replay=judge_replay(tr, S, it.uf_apps, jcons), nonlinear=True, margin_goal=mg(tame, gc))
    if D == 2:
        ck.control("control.mvn_diag.logprob_is_first_component", asm, eq_arr(out["lp"], arr0(out["comp_lp"][0])), nonlinear=True)


# ===================================================================== squashed laws
def sq_fn(loc, sc, hi, lo, y, key):
    with stubs.prng_stubs():
        d = SquashedNormal(loc, sc, hi, lo)
        s, slp = d.sample_and_log_prob(key)
        return {"lp": d.log_prob(y), "p": d.prob(y), "mode": d.mode(), "sample": d.sample(key), "slp_s": s, "slp_lp": slp,
                "fwd_of_base_mode": d.distribution.bijector.forward(d.distribution.distribution.mode())}


def sqm_fn(loc, sc, hi, lo, y, key):
    with stubs.prng_stubs():
        d = SquashedMultivariateNormalDiag(loc, sc, hi, lo)
        s, slp = d.sample_and_log_prob(key)
        comps = [SquashedNormal(loc[i], sc[i], hi[i], lo[i]) for i in range(loc.shape[0])]
        return {"lp": d.log_prob(y), "p": d.prob(y), "mode": d.mode(), "sample": d.sample(key), "slp_s": s, "slp_lp": slp,
                "fwd_of_base_mode": d.distribution.bijector.forward(d.distribution.distribution.mode()),
                "comp_lp": jnp.stack([c.log_prob(y[i]) for i, c in enumerate(comps)]), "comp_mode": jnp.stack([c.mode() for c in comps])}


def sq_slp_fn(loc, sc, hi, lo, key):
    with stubs.prng_stubs():
        s, slp = SquashedNormal(loc, sc, hi, lo).sample_and_log_prob(key)
        return {"slp_s": s, "slp_lp": slp}


def sqm_slp_fn(loc, sc, hi, lo, key):
    with stubs.prng_stubs():
        s, slp = SquashedMultivariateNormalDiag(loc, sc, hi, lo).sample_and_log_prob(key)
        return {"slp_s": s, "slp_lp": slp}


def sq_lp_fn(loc, sc, hi, lo, y):
    return {"lp": SquashedNormal(loc, sc, hi, lo).log_prob(y)}


def sqm_lp_fn(loc, sc, hi, lo, y):
    return {"lp": SquashedMultivariateNormalDiag(loc, sc, hi, lo).log_prob(y)}


def sq_round_fn(loc, sc, hi, lo, t):
    b = SquashedNormal(loc, sc, hi, lo).bijector
    return {"y": b.forward(b.inverse(t))}


def sq_jac_fn(loc, sc, hi, lo, x):
    d = SquashedNormal(loc, sc, hi, lo)
    b = d.bijector
    return {"y": b.forward(x), "dy": jax.grad(lambda t: b.forward(t))(x), "base_lp": d.distribution.distribution.log_prob(x)}


def entropy_defined(d):
    try:
        d.entropy()
        return True
    except NotImplementedError:
        return False


def sq_gen(n, av, rng):
    if n == "sc":
        return jnp.asarray(rng.uniform(0.5, 1.5, size=av.shape), jnp.float32)
    if n == "hi":
        return jnp.asarray(rng.uniform(1.0, 2.0, size=av.shape), jnp.float32)
    if n == "lo":
        return jnp.asarray(rng.uniform(-2.0, -1.0, size=av.shape), jnp.float32)
    if n in ("y", "t"):
        return jnp.asarray(rng.uniform(-0.5, 0.5, size=av.shape), jnp.float32)
    return None


def sec_squashed_real(ck, D):
    """REAL-mode clauses: prob = exp(log_prob), support, mode fallback, product law"""
    vec = D > 0
    name = "squashed_mvn_diag" if vec else "squashed_normal"
    tag = f"@D={D}" if vec else ""
    sh = (D,) if vec else ()
    z = lambda c: jnp.zeros(sh) + c
    fn = sqm_fn if vec else sq_fn
    tr = trace(fn, z(0.), z(1.), z(1.), z(-1.), z(0.2), jr.key(0), argnames=["loc", "sc", "hi", "lo", "y", "key"], label=f"{'SquashedMultivariateNormalDiag' if vec else 'SquashedNormal'}: log_prob/prob/mode/sample")
    ck.encoded(tr)
    concrete.validate(ck, tr, n=2, seed=ck.seed, gen=sq_gen)
    it = Interp()
    S = tr.symbols(it)
    out = tr.run(it, S)
    flat = lambda a: list(np.asarray(a, dtype=object).reshape(-1))
    loc, sc, hi, lo, y = (flat(S[k]) for k in ("loc", "sc", "hi", "lo", "y"))
    valid = [s > 0 for s in sc] + [h > l_ for h, l_ in zip(hi, lo)]
    asm = valid + stubs.contracts(it)
    scalar = tuple(out["lp"].shape) == () and tuple(out["slp_lp"].shape) == () and tuple(out["p"].shape) == ()
    if vec and not ck.fact(f"{name}.product_sum.scalar_log_prob{tag}", scalar,
                           f"a product law has ONE log-probability (the sum over components): log_prob shape {out['lp'].shape}, sample_and_log_prob log-prob shape {out['slp_lp'].shape}"):
        ck.skip(f"{name}.*", "log_prob of the product law is not a scalar")
        return None
    dom0 = [z3.And(4 * v >= 3 * l_ + h, 4 * v <= l_ + 3 * h) for v, l_, h in zip(y, lo, hi)]
    ck.prove(f"{name}.prob_is_exp_logprob{tag}", asm, eq_arr(out["p"], arr0(it.o.unary("exp", out["lp"][()]))), replay=judge_replay(tr, S, it.uf_apps, jexp),
             margin_goal=mg(dom0 + between(hi + lo, -3, 3) + [h - l_ >= 1 for h, l_ in zip(hi, lo)] + between(sc, Fraction(3, 2), 2) + between(loc, -1, 1), eq_arr(out["p"], arr0(it.o.unary("exp", out["lp"][()])))))
    # support: samples and the mode lie in [low, high]
    inb = []
    for nm in ("sample", "slp_s", "mode"):
        inb += [z3.And(v >= l_, v <= h) for v, l_, h in zip(flat(out[nm]), lo, hi)]

    def jsup(outs, ins):
        l_, h = np.asarray(ins["lo"], float).reshape(-1), np.asarray(ins["hi"], float).reshape(-1)
        # exact float32 membership (low + (high - low) * s with s in [0, 1] cannot leave [low, high] under monotone rounding)
        bad = any(np.any((np.asarray(outs[nm], float).reshape(-1) < l_) | (np.asarray(outs[nm], float).reshape(-1) > h)) for nm in ("sample", "slp_s", "mode"))
        return bad, {}
    tame = between(loc + uf_terms(it, "RAND_normal"), -1, 1) + between(sc, Fraction(3, 2), 2) + between(hi + lo, -3, 3) + [h - l_ >= 1 for h, l_ in zip(hi, lo)]
    ck.prove(f"{name}.support{tag}", asm, conj(inb), replay=judge_replay(tr, S, it.uf_apps, jsup), nonlinear=True, margin_goal=mg(tame, conj(inb)))
    # the same clause on the SATURATED part of the parameter space (pre-squash values >= 12 resp. <= -12, where the logistic is within 1e-5 of its limits
    # -- bracket axioms of solve.AXIOMS): a sub-case of the obligation above whose counterexamples replay on the real code
    rn = uf_terms(it, "RAND_normal")
    for side, cond in (("high", [m >= 12 for m in loc] + [x >= 0 for x in rn]), ("low", [m <= -12 for m in loc] + [x <= 0 for x in rn])):
        sat_region = cond + between(sc, Fraction(3, 2), 2) + between(hi + lo, -3, 3) + [h - l_ >= 1 for h, l_ in zip(hi, lo)] + [m <= 16 for m in loc] + [m >= -16 for m in loc] + between(rn, -1, 1)
        ck.prove(f"{name}.support.saturated_{side}{tag}", asm + sat_region, conj(inb), replay=judge_replay(tr, S, it.uf_apps, jsup), nonlinear=True)
    # mode: fallback through the bijector = image of the base mode (= loc) under the squashing the sampler applies
    ns = uf_terms(it, "RAND_normal")
    smp = flat(out["sample"])
    at0 = [z3.substitute(s, *[(n, z3.RealVal(0)) for n in ns]) for s in smp]      # the sampler's transformation evaluated at the base mode
    sig = [l_ + (h - l_) * z3.If(m < -9, it.o.unary("exp", m), it.o.unary("logistic", m)) for m, l_, h in zip(loc, lo, hi)]

    def jmode(outs, ins):
        m, l_, h = (np.asarray(ins[k], float).reshape(-1) for k in ("loc", "lo", "hi"))
        want = l_ + (h - l_) / (1 + np.exp(-m))
        got = np.asarray(outs["mode"], float).reshape(-1)
        # bit-level: mode() and forward(base mode) are the same float32 computation, so any difference (however small) is a different function
        fwd = np.asarray(outs["fwd_of_base_mode"], float).reshape(-1)
        return (not np.allclose(got, want, rtol=1e-3, atol=1e-3)) or (not np.array_equal(got, fwd)), {"mode": got.tolist(), "forward_of_base_mode": fwd.tolist(), "squashed_base_mode": want.tolist()}
    ck.prove(f"squashed.mode_fallback@{name}", asm, conj([eq_arr(out["mode"], out["fwd_of_base_mode"]), eq_arr(out["mode"], np.array(at0, dtype=object).reshape(out["mode"].shape)),
                                                            eq_arr(out["mode"], np.array(sig, dtype=object).reshape(out["mode"].shape))]),
             replay=judge_replay(tr, S, it.uf_apps, jmode), nonlinear=True,
             margin_goal=mg(tame, conj([eq_arr(out["mode"], out["fwd_of_base_mode"]), eq_arr(out["mode"], np.array(at0, dtype=object).reshape(out["mode"].shape)),
                                        eq_arr(out["mode"], np.array(sig, dtype=object).reshape(out["mode"].shape))])))
    ck.control(f"control.{name}.mode_is_unsquashed_loc", asm, eq_arr(out["mode"], S["loc"]), nonlinear=True)
    if vec:
        slp = 0
        for i in range(D):
            slp = it.o.add(slp, out["comp_lp"][i])
        dom = [z3.And(v > l_, v < h) for v, l_, h in zip(y, lo, hi)]

        def jprod(outs, ins):
            a, b = float(outs["lp"]), float(np.sum(outs["comp_lp"]))
            return (np.shape(outs["lp"]) != () or abs(a - b) > 1e-3 * (1 + abs(b))), {"log_prob": np.asarray(outs["lp"]).tolist(), "sum_of_component_log_probs": b}
        if True:
            gp = conj([eq_arr(out["lp"], arr0(slp)), eq_arr(out["mode"], out["comp_mode"])])
            tame2 = tame + [z3.And(4 * v >= 3 * l_ + h, 4 * v <= l_ + 3 * h) for v, l_, h in zip(y, lo, hi)]
            ck.prove(f"{name}.product_sum{tag}", asm + dom, gp, replay=judge_replay(tr, S, it.uf_apps, jprod), nonlinear=True, margin_goal=mg(tame2, gp))
    return tr


def sec_squashed_log(ck, D):
    """LOG-mode clauses: sample/log-prob consistency, onto (low, high), Jacobian"""
    vec = D > 0
    name = "squashed_mvn_diag" if vec else "squashed_normal"
    tag = f"@D={D}" if vec else ""
    sh = (D,) if vec else ()
    z = lambda c: jnp.zeros(sh) + c
    fn = sqm_slp_fn if vec else sq_slp_fn
    lpf = sqm_lp_fn if vec else sq_lp_fn
    tr = trace(fn, z(0.), z(1.), z(1.), z(-1.), jr.key(0), argnames=["loc", "sc", "hi", "lo", "key"], label=f"{name}: sample_and_log_prob (LOG mode)")
    tr2 = trace(lpf, z(0.), z(1.), z(1.), z(-1.), z(0.2), argnames=["loc", "sc", "hi", "lo", "y"], label=f"{name}: log_prob (LOG mode)")
    ck.encoded(tr2)
    it = LogInterp()
    S = tr.symbols(it)
    out = tr.run(it, S)
    flat = lambda a: list(np.asarray(a, dtype=object).reshape(-1))
    if tuple(out["slp_lp"].shape) != ():
        ck.skip(f"{name}.sample_logprob_consistent{tag}", "sample_and_log_prob does not return a scalar log-probability (reported by product_sum.scalar_log_prob)")
        return
    ysym = np.array([it.o.lower(v) for v in flat(out["slp_s"])], dtype=object).reshape(sh)
    lp1 = it.o.toL(out["slp_lp"][()])
    o2 = tr2.run(it, tr2.symbols(it, given={k: S[k] for k in ("loc", "sc", "hi", "lo")} | {"y": ysym}))
    lp2 = it.o.toL(o2["lp"][()])
    ns = uf_terms(it, "RAND_normal")
    loc, sc, hi, lo = (flat(S[k]) for k in ("loc", "sc", "hi", "lo"))
    xs = [s * n + m for s, n, m in zip(sc, ns, loc)]
    asm = [s > 0 for s in sc] + [h > l_ for h, l_ in zip(hi, lo)] + [z3.And(x >= -XB, x <= XB) for x in xs] + stubs.contracts(it)
    goal = conj([eq_elem(lp1.a, lp2.a), eq_elem(lp1.P.term(), lp2.P.term()), lp1.P.denterm() != 0, lp2.P.denterm() != 0] + it.side_conds())

    def jcons(outs, ins):
        dist = (SquashedMultivariateNormalDiag if vec else SquashedNormal)(*(jnp.asarray(ins[k], jnp.float32) for k in ("loc", "sc", "hi", "lo")))
        want = float(dist.log_prob(jnp.asarray(outs["slp_s"], jnp.float32)))
        got = float(np.sum(outs["slp_lp"]))
        return (np.shape(outs["slp_lp"]) != () or not np.isfinite(want) or abs(got - want) > 2e-2 * (1 + abs(want))), {"returned_log_prob": np.asarray(outs["slp_lp"]).tolist(), "log_prob_of_returned_sample": want}
    tame = between(loc + ns, -1, 1) + between(sc, Fraction(3, 2), 2) + between(hi + lo, -3, 3) + [h - l_ >= 1 for h, l_ in zip(hi, lo)]
    _prove_log(ck, f"{name}.sample_logprob_consistent{tag}", asm, goal, judge_replay(tr, S, it.uf_apps, jcons), tame=tame)
    if not vec:
        ck.witness("witness.squashed_normal.params", asm + it.side_conds(), nonlinear=True)
        g_wrong = conj([eq_elem(lp1.a, lp2.a), eq_elem(lp1.P.term(), lp2.P.term() * 2)])
        fs = asm + [neg(g_wrong)]
        ck.witness("control.squashed_normal.logprob_off_by_log2", fs + solve.instantiate_axioms(fs) + log_exp_inverse_axioms(fs), nonlinear=True, kind="control")


def _prove_log(ck, oid, asm, goal, replay, timeout=180, tame=()):
    """ck.prove with the log/exp inverse axioms instantiated on the query's applications"""
    fs = list(asm) + [neg(goal)]
    fs = fs + solve.instantiate_axioms(fs)
    ax = log_exp_inverse_axioms(fs)
    return ck.prove(oid, list(asm) + ax, goal, replay=replay, nonlinear=True, timeout=timeout, margin_goal=mg(list(tame), goal))


def sec_squashed_onto_and_jacobian(ck):
    z = f32
    # ---- onto: every t in (low, high) is attained (forward(inverse(t)) = t, both the real bijector)
    tr = trace(sq_round_fn, z(0.), z(1.), z(1.), z(-1.), z(0.2), argnames=["loc", "sc", "hi", "lo", "t"], label="SquashedNormal.bijector.forward(inverse(t))")
    ck.encoded(tr)
    concrete.validate(ck, tr, n=2, seed=ck.seed, gen=sq_gen)
    it = LogInterp()
    S = tr.symbols(it)
    out = tr.run(it, S)
    hi, lo, t = S["hi"][()], S["lo"][()], S["t"][()]
    y = it.o.lower(out["y"][()])
    # pre-image in the exact branch: logit((t-lo)/(hi-lo)) >= -9  <=>  (t-lo)/(hi-t) >= e^-9 ; e^-9 > 1/8104
    asm = [hi > lo, t > lo, t < hi, (t - lo) * 8104 >= (hi - t)]
    lg = [a for a in solve.collect_apps([y] + it.side_conds()) if a.decl().name() == "log"]
    # the branch test is  log(u) < -9  with u = (t-lo)/(hi-t) >= 1/8104 > e^-9.1 : log u >= -9 needs monotonicity of log against a constant
    mono = [z3.Implies(a.arg(0) * 8104 >= 1, a >= -9) for a in lg]

    def jround(outs, ins):
        got, want = float(outs["y"]), float(ins["t"])
        return (not np.isfinite(got)) or abs(got - want) > 1e-3 * (1 + abs(want)), {"forward_of_inverse": got, "t": want}
    ck.assume_note("squashed.support.onto uses log(u) >= -9 for u >= 1/8104 (e^-9 = 1/8103.08...): monotonicity of log against a constant")
    tame = between([hi, lo], -3, 3) + [hi - lo >= 1, 8 * t >= lo + 7 * hi, 16 * t <= lo + 15 * hi]      # look near the upper end first
    _prove_log(ck, "squashed_normal.support.onto", asm + mono, conj([eq_elem(y, t)] + it.side_conds()), judge_replay(tr, S, it.uf_apps, jround), tame=tame)
    ck.control("control.squashed_normal.onto_beyond_high", asm[:1] + [t > hi] + mono, conj([eq_elem(y, t)] + it.side_conds()), nonlinear=True)

    # ---- Jacobian: exp(log_prob_y(f(x))) * f'(x) = base density(x), f' from JAX autodiff of the real bijector
    trj = trace(sq_jac_fn, z(0.), z(1.), z(1.), z(-1.), z(0.3), argnames=["loc", "sc", "hi", "lo", "x"], label="SquashedNormal.bijector.forward, jax.grad(forward), base log_prob")
    trl = trace(sq_lp_fn, z(0.), z(1.), z(1.), z(-1.), z(0.2), argnames=["loc", "sc", "hi", "lo", "y"], label="SquashedNormal.log_prob")
    ck.encoded(trj, trl)
    concrete.validate(ck, trj, n=2, seed=ck.seed, gen=sq_gen)
    ij = LogInterp()
    Sj = trj.symbols(ij)
    oj = trj.run(ij, Sj)
    yj = ij.o.lower(oj["y"][()])
    ol = trl.run(ij, trl.symbols(ij, given={k: Sj[k] for k in ("loc", "sc", "hi", "lo")} | {"y": arr0(yj)}))
    lp = ij.o.toL(ol["lp"][()])
    base = ij.o.toL(oj["base_lp"][()])
    lhs = ij.o.fmul(lp.P, ij.o.toF(oj["dy"][()]))
    sc, hi, lo, x = (Sj[k][()] for k in ("sc", "hi", "lo", "x"))
    asmj = [sc > 0, hi > lo, x >= -XB, x <= XB]
    goal = conj([eq_elem(lp.a, base.a), eq_elem(lhs.term(), base.P.term()), lhs.denterm() != 0, base.P.denterm() != 0] + ij.side_conds())

    def jjac(outs, ins):
        d = SquashedNormal(*(jnp.asarray(ins[k], jnp.float32) for k in ("loc", "sc", "hi", "lo")))
        lpy = float(d.log_prob(jnp.asarray(outs["y"], jnp.float32)))
        lhs_ = np.exp(lpy) * float(outs["dy"])
        rhs_ = float(np.exp(outs["base_lp"]))
        return (not np.isfinite(lhs_)) or abs(lhs_ - rhs_) > 2e-2 * (abs(rhs_) + 1e-6), {"exp(log_prob(f(x)))*f'(x)": lhs_, "base_density(x)": rhs_}
    tame = between([Sj["loc"][()], x], -1, 1) + between([sc], Fraction(3, 2), 2) + between([hi, lo], -3, 3) + [hi - lo >= 1]
    _prove_log(ck, "squashed.jacobian@squashed_normal", asmj, goal, judge_replay(trj, Sj, ij.uf_apps, jjac), tame=tame)
    ck.witness("witness.squashed.jacobian.params", asmj + ij.side_conds(), nonlinear=True)
    fs = [sc > 0, hi > lo, x <= XB, neg(goal)]
    ck.witness("control.squashed.jacobian_fails_in_asymptotic_branch", fs + solve.instantiate_axioms(fs) + log_exp_inverse_axioms(fs), nonlinear=True, kind="control")


def main():
    ck = Check("C15", "Action distributions are coherent probability laws")
    _prove, seen_asm = ck.prove, set()

    def prove(oid, asm, goal, **kw):
        key = tuple(sorted(a.get_id() for a in asm if not isconc(a)))
        if key and key not in seen_asm:
            seen_asm.add(key)      # vacuity guard: every distinct assumption set must be satisfiable
            ck.witness(f"witness.assumptions.{oid}", list(asm), nonlinear=kw.get("nonlinear", False))
        if not kw.get("nonlinear") and not kw.get("ackermann") and not isconc(goal):
            asm = list(asm) + div_axioms(list(asm) + [goal])      # valid facts about the quotients in the query (probs >= 0)
        ok = _prove(oid, asm, goal, **kw)
        ob = ck.obls[-1]
        if not ok and ob.oid == oid and ob.status == "unknown" and not kw.get("nonlinear") and not kw.get("ackermann"):
            # the default solver occasionally wanders on an easy query: one retry after Ackermannisation (different preprocessing)
            ck.obls.pop()
            ck.inconclusive.remove(ob)
            ok = _prove(oid, asm, goal, **dict(kw, ackermann=True))
        return ok
    ck.prove = prove
    ck.mode = "LOG (discrete laws, squashing identities), REAL modulo uninterpreted log/exp/logistic (continuous laws), XREAL (discrete samplers)"
    Ks = [2, 3] if not ck.thorough else [2, 3, 4, 5, 6]
    ck.bound(categorical_K=Ks, bernoulli="scalar, logits and probs", multicategorical_dims=[[2, 3]], flat_vs_sequence_dims=[[2, 3], [2, 3, 2], [2, 2]] + ([[1, 4], [3, 3], [2, 2, 2]] if ck.thorough else []), mvn_dims=[2] if not ck.thorough else [2, 3, 4], squashed_mvn_dims=[2] if not ck.thorough else [2, 3],
             pre_squash_range=f"|x| <= {XB} (below -9 distreqx's Sigmoid uses asymptotic approximations that are not identities over the reals)",
             sample_points="discrete sample points are case-split over the support plus out-of-support points (-1 and K); parameters, continuous sample points, bounds and keys are symbolic",
             note="logits are log P_i with P_i > 0 (every finite logit vector); probs parameters are non-negative with positive sum; scales > 0; low < high finite")
    ck.stub(*stubs.STUB_NOTES)
    ck.stub("jax.numpy.logaddexp (hence jax.nn.softplus) is interpreted by its definition log(e^a + e^b) in LOG mode",
            "log and exp are uninterpreted outside the LOG domain, with the instantiated axioms exp>0, exp(0)=1, log(1)=0, log(exp x)=x, exp(a)exp(-a)=1")
    ck.assume_note("PRNG-dependent obligations are replayed on the real lerax code with the stubbed samplers bound to the draws of the solver model (ModelWorld)",
                   "LOG-mode side conditions (cancelled atoms non-zero, log arguments non-negative, denominators positive) are discharged inside each obligation")
    ck.out("continuous normalisation integrals (total mass of Normal / MultivariateNormalDiag / squashed laws as integrals)",
           "samples follow the stated density (statistical clause; erf_inv / Gumbel sampling quality)",
           "entropy of continuous laws equals -E[log p] (an integral); entropy of the squashed laws is not defined by lerax (NotImplementedError)",
           "float32 rounding; squashing clauses for pre-squash values below -9 (asymptotic branches of distreqx's Sigmoid)",
           "categorical laws with more than 127 categories (int8 sample dtype)")
    for K in Ks:
        with ck.section(f"categorical@K={K}"):
            sec_categorical(ck, K)
    with ck.section("bernoulli"):
        sec_bernoulli(ck)
    with ck.section("multicategorical"):
        sec_multicat(ck)
    # three and more components: cumulative (not pairwise) block offsets
    for d3 in ([(2, 2, 2)] if not ck.thorough else [(2, 2, 2), (2, 3, 2), (2, 1, 2, 2)]):
        with ck.section("multicat@" + "x".join(map(str, d3))):
            sec_multicat(ck, d3)
    # (equal component sizes included: a flat vector can then be split by a reshape, whose axis order matters)
    for dims in [(2, 3), (2, 3, 2), (2, 2)] + ([(1, 4), (3, 3), (2, 2, 2)] if ck.thorough else []):
        with ck.section(f"flat_eq_sequence{dims}"):
            sec_flat_eq_sequence(ck, dims)
    with ck.section("discrete samplers"):
        sec_discrete_select(ck, [2, 3] if not ck.thorough else [2, 3, 4, 6])
    with ck.section("zero-mass classes"):
        sec_zero_mass(ck)
    with ck.section("independent components"):
        sec_independent_components(ck)
    with ck.section("normal"):
        sec_normal(ck)
    for D in ([2] if not ck.thorough else [2, 3, 4]):
        with ck.section(f"mvn_diag@D={D}"):
            sec_mvn(ck, D)
    for D in ((0, 2) if not ck.thorough else (0, 2, 3)):
        with ck.section(f"squashed.real@D={D}"):
            sec_squashed_real(ck, D)
        with ck.section(f"squashed.log@D={D}"):
            sec_squashed_log(ck, D)
    with ck.section("squashed.onto_jacobian"):
        sec_squashed_onto_and_jacobian(ck)
    with ck.section("entropy.defined"):
        d1 = SquashedNormal(f32(0.), f32(1.), f32(1.), f32(-1.))
        d2 = SquashedMultivariateNormalDiag(jnp.zeros(2), jnp.ones(2), jnp.ones(2), -jnp.ones(2))
        ck.notes.append(f"entropy() defined: SquashedNormal={entropy_defined(d1)}, SquashedMultivariateNormalDiag={entropy_defined(d2)} (the property asks for entropy only where it is defined)")
    ck.finish("All seven lerax distribution classes are traced (log_prob, prob, entropy, mode, sample, sample_and_log_prob, the squashing bijector and its JAX derivative). "
              "Discrete laws are interpreted in LOG mode: prob = exp(log_prob), total mass 1, entropy = -sum p log p, product law = sum of components, for all positive "
              "parameters, with the sample point case-split over its finite range. Continuous laws are interpreted over the reals modulo log/exp/logistic: prob = exp(log_prob) "
              "(same term), diagonal laws = sums over their Normal / SquashedNormal components, sample_and_log_prob returns log_prob of the returned sample (NRA; for squashed laws "
              "in LOG mode with log/exp inverse axioms), samples and modes within [low, high], the bijector is onto (low, high), mode = forward(base mode), and the Jacobian identity "
              "exp(log_prob(f(x))) f'(x) = base density(x) with f' from JAX autodiff. Flat and sequence parameterisations of MultiCategorical are compared output by output.")


if __name__ == "__main__":
    main()
