"""Wrapper stacks over an arbitrary (uninterpreted) environment and their *reference semantics*.

`build(spec, base)` constructs the real lerax wrapper stack; `Ref(spec, ...)` is an independent description of what
the property says such a stack means (only the declared change applied), written over the same uninterpreted
functions the harness environment binds.  spec = list of layers, innermost first.
"""
from fractions import Fraction

import jax
import jax.numpy as jnp
import numpy as np
import z3

from jaxsmt.harness import UFCall, UFEnv
from jaxsmt.interp import arr0, emap
from jaxsmt.uf import uf

from lerax.space import Box, Discrete
from lerax import wrapper as W

# concrete dyadic configuration (float arithmetic on it is exact)
ACT_LOW, ACT_HIGH = np.array([-1.0, -2.0], np.float32), np.array([1.0, 4.0], np.float32)
OBS_LOW, OBS_HIGH = np.array([-2.0, 0.0], np.float32), np.array([6.0, 4.0], np.float32)
RS_MIN, RS_MAX = np.array([-1.0, -1.0], np.float32), np.array([1.0, 2.0], np.float32)   # all gradients (max-min)/(high-low) are dyadic
RW_MIN, RW_MAX = -0.5, 0.75


class BoundedObsUFEnv(UFEnv):
    """UFEnv whose declared observation space is a bounded box (needed by Clip/RescaleObservation)"""

    def __init__(self, action_space, **kw):
        super().__init__(action_space, **kw)
        object.__setattr__(self, "observation_space", Box(jnp.asarray(OBS_LOW), jnp.asarray(OBS_HIGH)))


def base_env(kind, masked=False):
    if kind == "discrete":
        return BoundedObsUFEnv(Discrete(3), masked=masked)
    return BoundedObsUFEnv(Box(jnp.asarray(ACT_LOW), jnp.asarray(ACT_HIGH)))


def AF(a):
    a = jnp.asarray(a)
    return uf("AF", [(a.shape, a.dtype.name)], a, int_mod=3)[0]


def OF(o):
    return uf("OF", [((3,), "float32")], o)[0]


def RF(r):
    return uf("RF", [((), "float32")], r)[0]


LAYERS = {
    "Identity": dict(act="any"),
    "TimeLimit": dict(act="any"),
    "ClipAction": dict(act="box"),
    "RescaleAction": dict(act="box"),
    "TransformAction": dict(act="any"),
    "ClipObservation": dict(act="any", needs_box_obs=True),
    "RescaleObservation": dict(act="any", needs_box_obs=True),
    "FlattenObservation": dict(act="any"),
    "TransformObservation": dict(act="any"),
    "ClipReward": dict(act="any"),
    "TransformReward": dict(act="any"),
}


def build_layer(name, env, n_limit=3):
    if name == "Identity":
        return W.Identity(env)
    if name == "TimeLimit":
        return W.TimeLimit(env, n_limit)
    if name == "ClipAction":
        return W.ClipAction(env)
    if name == "RescaleAction":
        return W.RescaleAction(env, jnp.asarray(RS_MIN), jnp.asarray(RS_MAX))
    if name == "TransformAction":
        return W.TransformAction(env, AF, env.action_space)
    if name == "ClipObservation":
        return W.ClipObservation(env)
    if name == "RescaleObservation":
        return W.RescaleObservation(env, jnp.asarray(RS_MIN), jnp.asarray(RS_MAX))
    if name == "FlattenObservation":
        return W.FlattenObservation(env)
    if name == "TransformObservation":
        return W.TransformObservation(env, OF, Box(-jnp.inf, jnp.inf, shape=(3,)))
    if name in CLIP_REWARD_ARGS:
        return W.ClipReward(env, *CLIP_REWARD_ARGS[name])
    if name == "TransformReward":
        return W.TransformReward(env, RF)
    raise KeyError(name)


# configurations outside the all-pairs enumeration: arguments that are legitimate but easy to mishandle in a constructor (a bound of exactly 0)
EXTRA_LAYERS = {
    "ClipReward[min=0]": dict(act="any"),
    "ClipReward[max=0]": dict(act="any"),
}
LAYER_INFO = dict(LAYERS, **EXTRA_LAYERS)
# what the builder HANDS TO THE CONSTRUCTOR of each ClipReward configuration: the reference clips to these, whatever the constructed object stores
CLIP_REWARD_ARGS = {"ClipReward": (RW_MIN, RW_MAX), "ClipReward[min=0]": (0.0, RW_MAX), "ClipReward[max=0]": (RW_MIN, 0)}


class StackError(Exception):
    pass


def applicable(spec, kind):
    """static applicability of a stack (a wrapper over an incompatible space is not a stack the property talks about)"""
    act_box = kind == "box"
    obs_box2 = True   # current observation is a bounded 2-vector box
    act_bounded = act_box
    for name in spec:
        L = LAYER_INFO[name]
        if L["act"] == "box" and not act_box:
            return False
        if name == "RescaleAction" and not act_bounded:
            return False
        if L.get("needs_box_obs") and not obs_box2:
            return False
        if name == "ClipAction":
            act_bounded = False          # advertises an unbounded box
        if name == "RescaleAction":
            act_bounded = True
        if name in ("FlattenObservation", "TransformObservation"):
            obs_box2 = False
        if name == "RescaleObservation":
            obs_box2 = True
    return True


def build(spec, kind="discrete", masked=False, n_limit=3):
    env = base_env(kind, masked)
    for name in spec:
        env = build_layer(name, env, n_limit)
    return env


def frac(a):
    return [Fraction(float(x)) for x in np.asarray(a).reshape(-1)]


class Ref:
    """reference semantics of a stack (independent of lerax.wrapper)"""

    def __init__(self, interp, spec, kind, theta, limits, masked=False, clip_reward=None):
        """theta: element; limits: list of elements N_j for each TimeLimit layer (innermost first);
        clip_reward: list of (min, max) element pairs for each ClipReward layer (innermost first)"""
        self.it = interp
        self.o = interp.o
        self.U = UFCall(interp)
        self.spec = list(spec)
        self.kind = kind
        self.theta = arr0(theta)
        self.limits = list(limits)
        self.masked = masked
        self.clip_reward = list(clip_reward or [])
        self.n_state, self.n_obs = 2, 2

    # ---- the declared changes
    def inner_action(self, a):
        """action reaching the innermost environment: outermost layer is applied first"""
        o = self.o
        a = np.asarray(a, dtype=object) if not isinstance(a, np.ndarray) else a
        # bounds of the action space *seen* by each layer
        lows, highs = frac(ACT_LOW), frac(ACT_HIGH)
        seen = []
        for name in self.spec:
            seen.append((list(lows), list(highs)))
            if name == "RescaleAction":
                lows, highs = frac(RS_MIN), frac(RS_MAX)
            if name == "ClipAction":
                lows, highs = [None] * len(lows), [None] * len(highs)   # advertises an unbounded box

        def clip1(x, l, h):
            if l is not None:
                x = o.ite(o.lt(x, l), l, x)
            if h is not None:
                x = o.ite(o.gt(x, h), h, x)
            return x
        for name, (lo, hi) in reversed(list(zip(self.spec, seen))):
            if name == "ClipAction":
                a = np.array([clip1(x, l, h) for x, l, h in zip(a.reshape(-1), lo, hi)], dtype=object).reshape(a.shape)
            elif name == "RescaleAction":
                mn, mx = frac(RS_MIN), frac(RS_MAX)
                # affine map taking [mn, mx] exactly onto [lo, hi]
                a = np.array([o.add(l, o.mul(o.sub(x, m), (h - l) / (M - m))) for x, l, h, m, M in zip(a.reshape(-1), lo, hi, mn, mx)], dtype=object).reshape(a.shape)
            elif name == "TransformAction":
                dt = "int32" if self.kind == "discrete" else "float32"
                a = self.U("AF", [(a.shape, dt)], a)[0]
        return a

    def post_obs(self, obs):
        o = self.o
        lo, hi = frac(OBS_LOW), frac(OBS_HIGH)
        for name in self.spec:
            if name == "ClipObservation":
                obs = np.array([o.ite(o.lt(x, l), l, o.ite(o.gt(x, h), h, x)) for x, l, h in zip(obs, lo, hi)], dtype=object)
            elif name == "RescaleObservation":
                mn, mx = frac(RS_MIN), frac(RS_MAX)
                obs = np.array([o.add(m, o.mul(o.sub(x, l), (M - m) / (h - l))) for x, l, h, m, M in zip(obs, lo, hi, mn, mx)], dtype=object)
                lo, hi = mn, mx
            elif name == "FlattenObservation":
                obs = obs.reshape(-1)
            elif name == "TransformObservation":
                obs = self.U("OF", [((3,), "float32")], obs)[0]
        return obs

    def post_reward(self, r):
        o = self.o
        k = 0
        for name in self.spec:
            if name in CLIP_REWARD_ARGS:
                mn, mx = (Fraction(float(x)) for x in CLIP_REWARD_ARGS[name])      # the constructor's arguments (not the stored attributes)
                k += 1
                r = o.ite(o.lt(r, mn), mn, o.ite(o.gt(r, mx), mx, r))
            elif name == "TransformReward":
                r = self.U("RF", [((), "float32")], arr0(r))[0][()]
        return r

    def n_counters(self):
        return sum(1 for n in self.spec if n == "TimeLimit")

    # ---- functional components
    def initial(self, key):
        s = self.U("Init", [((self.n_state,), "float32")], self.theta, arr0(key))[0]
        return s, [0] * self.n_counters()

    def transition(self, s, counters, a, key):
        ai = self.inner_action(a)
        s2 = self.U("T", [((self.n_state,), "float32")], self.theta, s, ai, arr0(key))[0]
        return s2, [self.o.add(c, 1) for c in counters]

    def observation(self, s, key):
        return self.post_obs(self.U("O", [((self.n_obs,), "float32")], self.theta, s, arr0(key))[0])

    def reward(self, s, a, s2, key):
        ai = self.inner_action(a)
        return self.post_reward(self.U("R", [((), "float32")], self.theta, s, ai, s2, arr0(key))[0][()])

    def terminal(self, s, key):
        return self.U("Term", [((), "bool")], self.theta, s, arr0(key))[0][()]

    def truncate(self, s, counters):
        t = self.U("Trunc", [((), "bool")], self.theta, s)[0][()]
        for c, N in zip(counters, self.limits):
            t = self.o.lor(t, self.o.ge(c, N))
        return t

    def state_info(self, s):
        return self.U("SInfo", [((), "float32")], self.theta, s)[0][()]

    def transition_info(self, s, a, s2):
        return self.U("TInfo", [((), "float32")], self.theta, s, self.inner_action(a), s2)[0][()]

    def mask(self, s, key):
        return self.U("Mask", [((3,), "bool")], self.theta, s, arr0(key))[0]


def state_parts(S, prefix, spec):
    """split the symbolic wrapper-state inputs named `<prefix>...` into (inner s, counters innermost-first)"""
    s = None
    counters = []
    for n, v in S.items():
        if not n.startswith(prefix):
            continue
        if n.endswith("_s") or n == prefix + "s":
            s = v
        elif n.endswith("step_count"):
            counters.append((n.count("env_state"), v))
    counters.sort(key=lambda t: -t[0])   # deeper nesting = inner layer first
    return s, [v[()] for _, v in counters]


def out_parts(out, prefix):
    s = None
    counters = []
    for n, v in out.items():
        if not n.startswith(prefix):
            continue
        if n.endswith("_s") or n == prefix + "s":
            s = v
        elif n.endswith("step_count"):
            counters.append((n.count("env_state"), v))
    counters.sort(key=lambda t: -t[0])
    return s, [v[()] for _, v in counters]
