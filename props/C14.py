"""C14 — Spaces: exact membership, member samples, coherent equality."""
import itertools
import math
import os
from collections import OrderedDict

import jax
import jax.numpy as jnp
import numpy as np
import z3
from jax import random as jr

from jaxsmt import concrete, core, solve, stubs
from jaxsmt.core import Check, conj, disj, implies, neg
from jaxsmt.interp import Interp, arr0, kind
from jaxsmt.ops import F32, RNE, FPOps, isconc
from jaxsmt.trace import explore, trace

from lerax.space import Box, Dict, Discrete, MultiBinary, MultiDiscrete, Tuple

from props import c14_xhair

INT_ABS = 1 << 24          # integer candidates are exactly representable in float32 (stated bound)
BOX_ABS = 2.0 ** 126       # finite Box bounds in canonical(): low+high cannot overflow (stated bound)


# ===================================================================== the statement's membership predicate
# Written from the statement, twice: over solver terms (z_member) and over concrete Python numbers (py_member,
# used only when a counterexample is replayed on the real classes).
def _fpv(v):
    return z3.FPVal(float(v), F32)


def _ekind(e):
    """kind of an element: 'f' float32 term, 'i' integer term, 'b' boolean term (or concrete Python value)"""
    if isconc(e):
        if isinstance(e, (bool, np.bool_)):
            return "b"
        if isinstance(e, (int, np.integer)):
            return "i"
        return "f"
    if z3.is_fp(e):
        return "f"
    if z3.is_bool(e):
        return "b"
    if z3.is_int(e):
        return "i"
    return "r"


def _z(e):
    if not isconc(e):
        return e
    if isinstance(e, (bool, np.bool_)):
        return z3.BoolVal(bool(e))
    if isinstance(e, (int, np.integer)):
        return z3.IntVal(int(e))
    f = float(e)
    if f != f:
        return z3.fpNaN(F32)
    if math.isinf(f):
        return z3.fpPlusInfinity(F32) if f > 0 else z3.fpMinusInfinity(F32)
    return z3.FPVal(f, F32)


def z_index(e, n, *, integral=True, lower=True, upper_strict=True):
    """e is a whole number with 0 <= e < n (flags exist only to build deliberately wrong references)"""
    e = _z(e)
    k = _ekind(e)
    if k == "b":
        return z3.Or(z3.Not(e), z3.BoolVal(n > 1)) if upper_strict else z3.BoolVal(True)
    if k == "i":
        cs = [e < n if upper_strict else e <= n]
        if lower:
            cs.append(e >= 0)
        return z3.And(cs)
    if k == "f":
        cs = [z3.Not(z3.fpIsNaN(e)), z3.Not(z3.fpIsInf(e))]
        if integral:
            cs.append(z3.fpEQ(z3.fpRoundToIntegral(z3.RTZ(), e), e))
        if lower:
            cs.append(z3.fpGEQ(e, _fpv(0.0)))
        cs.append(z3.fpLT(e, _fpv(n)) if upper_strict else z3.fpLEQ(e, _fpv(n)))
        return z3.And(cs)
    # real (REAL mode): floats are reals
    cs = [e < n if upper_strict else e <= n]
    if lower:
        cs.append(e >= 0)
    if integral:
        cs.append(z3.ToReal(z3.ToInt(e)) == e)
    return z3.And(cs)


def z_bit(e):
    e = _z(e)
    k = _ekind(e)
    if k == "b":
        return z3.BoolVal(True)
    if k == "i":
        return z3.Or(e == 0, e == 1)
    if k == "f":
        return z3.Or(z3.fpIsZero(e), z3.fpEQ(e, _fpv(1.0)))
    return z3.Or(e == 0, e == 1)


def z_between(e, lo, hi, *, strict_low=False, strict_high=False):
    """lo <= e <= hi as numbers (inclusive), NaN never inside"""
    e, lo, hi = _z(e), _z(lo), _z(hi)
    k = _ekind(e)
    if _ekind(lo) == "r" or k == "r":
        # REAL mode
        if k == "b":
            e = z3.If(e, z3.RealVal(1), z3.RealVal(0))
        elif k == "i":
            e = z3.ToReal(e)
        return z3.And(lo < e if strict_low else lo <= e, e < hi if strict_high else e <= hi)
    if k == "b":
        e = z3.If(e, _fpv(1.0), _fpv(0.0))
    elif k == "i":
        # |e| <= 2^24 is assumed for integer candidates, so the conversion is exact
        bv = _BVOPS[0].bv.get(e.get_id()) if _BVOPS[0] is not None else None
        e = z3.fpSignedToFP(z3.RNE(), bv, F32) if bv is not None else z3.fpToFP(z3.RNE(), z3.ToReal(e), F32)
    return z3.And(z3.Not(z3.fpIsNaN(e)),
                  z3.fpLT(lo, e) if strict_low else z3.Not(z3.fpGT(lo, e)),
                  z3.fpLT(e, hi) if strict_high else z3.Not(z3.fpGT(e, hi)),
                  z3.Not(z3.fpIsNaN(lo)), z3.Not(z3.fpIsNaN(hi)))


def z_member(sp, x, S=None, prefix="sp", **flags):
    """membership of the candidate `x` (pytree of object arrays of terms / foreign Python objects) in `sp`.
    Box bounds are taken from S[prefix_low/high] (symbolic) when present, else from the space object."""
    if isinstance(sp, Tuple):
        if not isinstance(x, tuple) or len(x) != len(sp.spaces):
            return False
        return conj([z_member(s, xi, S, f"{prefix}_spaces_{i}", **flags) for i, (s, xi) in enumerate(zip(sp.spaces, x))])
    if isinstance(sp, Dict):
        if not isinstance(x, dict) or set(x.keys()) != set(sp.spaces.keys()):
            return False
        return conj([z_member(s, x[k], S, f"{prefix}_spaces_{k}", **flags) for k, s in sp.spaces.items()])
    if not isinstance(x, np.ndarray):
        return False
    if isinstance(sp, Discrete):
        if x.shape != ():
            return False
        return z_index(x[()], sp.n, **flags)
    if isinstance(sp, MultiDiscrete):
        if x.shape != (len(sp.nvec),):
            return False
        return conj([z_index(x[i], sp.nvec[i], **flags) for i in range(len(sp.nvec))])
    if isinstance(sp, MultiBinary):
        if x.shape != tuple(sp.n):
            return False
        return conj([z_bit(x[i]) for i in np.ndindex(*x.shape)])
    if isinstance(sp, Box):
        if x.shape != tuple(sp.low.shape):
            return False
        if S is not None and f"{prefix}_low" in S:
            lo, hi = S[f"{prefix}_low"], S[f"{prefix}_high"]
        else:
            lo, hi = np.asarray(sp.low), np.asarray(sp.high)
        bf = {k: v for k, v in flags.items() if k in ("strict_low", "strict_high")}
        return conj([z_between(x[i], lo[i], hi[i], **bf) for i in np.ndindex(*x.shape)])
    raise TypeError(type(sp))


def py_member(sp, x):
    """the same predicate on concrete values (replay only)"""
    if isinstance(sp, Tuple):
        return isinstance(x, tuple) and len(x) == len(sp.spaces) and all(py_member(s, xi) for s, xi in zip(sp.spaces, x))
    if isinstance(sp, Dict):
        return isinstance(x, dict) and set(x.keys()) == set(sp.spaces.keys()) and all(py_member(s, x[k]) for k, s in sp.spaces.items())
    try:
        a = np.asarray(x)
    except Exception:  # noqa: BLE001
        return False
    if a.dtype.kind not in "biuf":
        return False
    vals = [float(v) for v in a.reshape(-1)]
    if isinstance(sp, Discrete):
        return a.shape == () and all(math.isfinite(v) and v == math.floor(v) and 0 <= v < sp.n for v in vals)
    if isinstance(sp, MultiDiscrete):
        return a.shape == (len(sp.nvec),) and all(math.isfinite(v) and v == math.floor(v) and 0 <= v < n for v, n in zip(vals, sp.nvec))
    if isinstance(sp, MultiBinary):
        return a.shape == tuple(sp.n) and all(v in (0.0, 1.0) for v in vals)
    if isinstance(sp, Box):
        lo = [float(v) for v in np.asarray(sp.low).reshape(-1)]
        hi = [float(v) for v in np.asarray(sp.high).reshape(-1)]
        return a.shape == tuple(sp.low.shape) and all(v == v and l <= v <= h for v, l, h in zip(vals, lo, hi))
    raise TypeError(type(sp))


# ===================================================================== integer candidates promoted to float32
class BVIntOps(FPOps):
    """FP32 element operations in which selected integer symbols are backed by a signed 32-bit bit-vector, so that the
    int32 -> float32 promotion (`convert_element_type`) is z3's native, bit-blasted `to_fp` from a signed bit-vector
    instead of Int -> Real -> FP (which z3 does not decide in reasonable time).  The integer term handed to the
    interpreter is the bit-vector's signed value, so integer operations on it stay exact."""

    def __init__(self):
        super().__init__()
        self.bv = {}

    def int_symbol(self, name):
        bv = z3.BitVec(name + "_bv", 32)
        t = z3.BV2Int(bv, is_signed=True)
        self.bv[t.get_id()] = bv
        return t

    def sym(self, name, dtype):
        if np.issubdtype(np.dtype(dtype), np.integer):
            return self.int_symbol(name)
        return super().sym(name, dtype)

    def i2f(self, x):
        if not isconc(x) and x.get_id() in self.bv:
            return z3.fpSignedToFP(RNE, self.bv[x.get_id()], F32)
        return super().i2f(x)


def fp_interp(bv_ints=False):
    it = Interp(mode="fp32")
    if bv_ints:
        o = BVIntOps()
        o.fold_transcendentals = it.o.fold_transcendentals
        it.o = o
    return it


_BVOPS = [None]


# ===================================================================== helpers
def sp_label(sp):
    if isinstance(sp, Box):
        return f"Box{tuple(sp.low.shape)}"
    if isinstance(sp, Discrete):
        return f"Discrete({sp.n})"
    if isinstance(sp, MultiDiscrete):
        return f"MultiDiscrete({','.join(map(str, sp.nvec))})"
    if isinstance(sp, MultiBinary):
        return f"MultiBinary({','.join(map(str, sp.n))})"
    if isinstance(sp, Tuple):
        return "Tuple[" + ";".join(sp_label(s) for s in sp.spaces) + "]"
    if isinstance(sp, Dict):
        return "Dict[" + ";".join(f"{k}:{sp_label(s)}" for k, s in sp.spaces.items()) + "]"
    return type(sp).__name__


def has_box(sp):
    if isinstance(sp, Box):
        return True
    if isinstance(sp, Tuple):
        return any(has_box(s) for s in sp.spaces)
    if isinstance(sp, Dict):
        return any(has_box(s) for s in sp.spaces.values())
    return False


def family(sp):
    return type(sp).__name__


def cand_label(x):
    if isinstance(x, (jax.Array, np.ndarray)):
        return f"{np.dtype(x.dtype).name},{tuple(x.shape)}"
    if isinstance(x, tuple):
        return "(" + ";".join(cand_label(v) for v in x) + ")"
    if isinstance(x, dict):
        return type(x).__name__ + "{" + ";".join(f"{k}:{cand_label(v)}" for k, v in x.items()) + "}"
    return type(x).__name__


def tree_of(tr, S, argname):
    """the argument `argname` of a Traced rebuilt as a pytree whose array leaves are the symbol arrays"""
    idx = tr._argnames.index(argname)
    arg = tr.args[idx]
    names = iter([n for n in tr.in_names if n == argname or n.startswith(argname + "_")])
    leaves, treedef = jax.tree_util.tree_flatten(arg)
    new = []
    for l in leaves:
        new.append(S[next(names)] if concrete._isleaf(l) else l)
    return _unflatten_obj(treedef, new)


def _unflatten_obj(treedef, leaves):
    # object arrays are not valid JAX leaves for every treedef operation; unflatten works structurally
    return jax.tree_util.tree_unflatten(treedef, leaves)


def path_terms(paths, it, S):
    """run every explored path on the shared symbols -> list of (pc, result array | None, exception)"""
    out = []
    for dec, tr, exc in paths:
        if tr is None:
            raise RuntimeError(f"path {dec} raised {exc!r} before a path condition could be recovered")
        o = tr.run(it, S)
        names = tr.out_names
        if exc is None:
            res = o[names[0]]
            conds = [o[n][()] for n in names[1:]]
        else:
            res = None
            conds = [o[n][()] for n in names]
        conds = conds[:len(dec)]
        pc = conj([c if d else neg(c) for c, d in zip(conds, dec)])
        out.append((pc, res, exc, tr))
    return out


def int_range(S, names, bound=INT_ABS):
    cs = []
    for n in names:
        for e in S[n].reshape(-1):
            if not isconc(e) and z3.is_int(e):
                bv = _BVOPS[0].bv.get(e.get_id()) if _BVOPS[0] is not None else None
                cs += [bv >= -bound, bv <= bound] if bv is not None else [e >= -bound, e <= bound]
    return cs


def model_args(tr, S, res):
    keys = concrete.KeyBinding(res)
    vals = [concrete.model_leaf(res, S[n], av, keys) for n, av in zip(tr.in_names, tr.in_avals)]
    return concrete.rebuild_args(tr, vals), vals


def fl(v):
    a = np.asarray(v)
    return a.tolist()


def describe(x):
    return jax.tree_util.tree_map(lambda l: fl(l) if hasattr(l, "dtype") else repr(l), x)


def validate_paths(ck, paths, fn, points, label):
    """translator validation for path-forked traces: on concrete inputs exactly one explored path must be
    feasible and its interpreted result must equal what the real function returns when run eagerly"""
    bad = 0
    for leaves in points:
        tr0 = paths[0][1]
        args = concrete.rebuild_args(tr0, leaves)
        real = np.asarray(fn(*args))
        it = concrete.ConcInterp(mode="fp32")
        hits = []
        for dec, tr, exc in paths:
            outs = it.run(tr.jaxpr, tr.consts, [concrete.lift_leaf(it, v, av) for v, av in zip(leaves, tr.in_avals)])
            if exc is None:
                r, conds = outs[0], [o[()] for o in outs[1:]]
            else:
                r, conds = None, [o[()] for o in outs]
            if all(bool(c) == d for c, d in zip(conds, dec)):
                hits.append((r, exc))
        ok = len(hits) == 1 and hits[0][1] is None and np.array_equal(np.asarray(hits[0][0], dtype=bool).reshape(real.shape) if hits[0][0] is not None and np.asarray(hits[0][0]).size == real.size else None, real)
        ck.validation["points"] += 1
        if not ok:
            bad += 1
            ck.log(f"translator validation MISMATCH in {label}: inputs {[fl(v) for v in leaves]} real={real} interp={[(None if r is None else r.tolist(), repr(e)) for r, e in hits]}")
    ck.validation["programs"] += 1
    ck.validation["mismatches"] += bad
    if bad:
        ob = ck._new(f"translator.{label}", "witness")
        ob.status = "mismatch"
        ck.inconclusive.append(ob)
    return bad == 0


SPECIAL_F = [0.0, 1.0, -1.0, 2.0, 0.5, 3.0, -0.0, math.nan, math.inf, -math.inf, 1.5, 2.5]


def special_leaf(av, rng):
    dt = np.dtype(av.dtype)
    if dt == np.bool_:
        return jnp.asarray(rng.random(av.shape) < 0.5)
    if np.issubdtype(dt, np.integer):
        return jnp.asarray(rng.integers(-2, 4, size=av.shape), dtype=dt)
    return jnp.asarray(rng.choice(SPECIAL_F, size=av.shape), dtype=dt)


# ===================================================================== contains
def contains_fn(sp, x):
    return sp.contains(x)


def check_contains(ck, sp, x, *, controls=False, validate=True):
    """<space>.contains.scalar_bool and <space>.contains.iff_oracle for one static configuration
    (space parameters that are Python values, candidate dtype and shape); candidate values and Box bounds symbolic"""
    fam = family(sp)
    cfg = f"{sp_label(sp)}|{cand_label(x)}"
    paths = explore(contains_fn, sp, x, argnames=["sp", "x"], label=f"{fam}.contains")
    for dec, tr, exc in paths:
        if tr is not None:
            tr._argnames = ["sp", "x"]
    first = next(tr for _, tr, _ in paths if tr is not None)
    ck.encoded(first)
    # ---- result aval: a scalar boolean on every path
    bad = []
    for dec, tr, exc in paths:
        if exc is None:
            av = tr.out_avals[0]
            if tuple(av.shape) != () or np.dtype(av.dtype) != np.bool_:
                bad.append((dec, str(av)))
    detail = f"{len(paths)} paths; result avals " + ", ".join(sorted({str(tr.out_avals[0]) for _, tr, e in paths if e is None}))
    scalar = not bad
    if bad:
        # replay on the real class, eagerly, on a concrete candidate of this shape
        r = sp.contains(jax.tree_util.tree_map(lambda l: jnp.zeros(l.shape, l.dtype), x))
        detail += f"; real {sp!r}.contains(zeros{cand_label(x)}) returned shape {tuple(np.shape(r))} dtype {np.asarray(r).dtype}"
        scalar = np.shape(r) == () and np.asarray(r).dtype == np.bool_
    ck.fact(f"{fam}.contains.scalar_bool@{cfg}", scalar, detail)
    if not scalar:
        return
    # ---- value: true exactly on members
    it = fp_interp(bv_ints=has_box(sp))
    _BVOPS[0] = it.o if isinstance(it.o, BVIntOps) else None
    S = first.symbols(it)
    pts = path_terms(paths, it, S)
    xs = tree_of(first, S, "x")
    oracle = z_member(sp, xs, S)
    assume = int_range(S, [n for n in first.in_names if n == "x" or n.startswith("x_")])
    goals = [disj([pc for pc, _, _, _ in pts])]
    for pc, res, exc, tr in pts:
        if exc is not None:
            goals.append(neg(pc))          # a raising path must be infeasible
        else:
            r = res[()]
            goals.append(implies(pc, r == oracle if not (isconc(r) and isconc(oracle)) else bool(r) == bool(oracle)))

    def rp(res, first=first, S=S, sp=sp):
        (sp_c, x_c), _ = model_args(first, S, res)
        want = py_member(sp_c, x_c)
        try:
            got = sp_c.contains(x_c)
            gotd = {"value": fl(got), "shape": list(np.shape(got))}
            differs = np.shape(got) != () or bool(got) != want
        except Exception as ex:  # noqa: BLE001
            gotd = {"raised": repr(ex)}
            differs = True
        return differs, {"space": repr(sp_c), "candidate": describe(x_c), "real_contains": gotd, "member_by_statement": want}
    ck.prove(f"{fam}.contains.iff_oracle@{cfg}", assume, conj(goals), replay=rp)
    if validate:
        rng = np.random.default_rng(ck.seed + 5)
        points = [[special_leaf(av, rng) for av in first.in_avals] for _ in range(3)]
        validate_paths(ck, paths, contains_fn, points, f"{fam}.contains@{cfg}")
    if controls:
        ck.witness(f"witness.{fam}.member_exists@{cfg}", assume + [oracle])
        ck.witness(f"witness.{fam}.nonmember_exists@{cfg}", assume + [neg(oracle)])
        for name, flags in wrong_references(sp):
            wrong = z_member(sp, xs, S, **flags)
            g = conj([implies(pc, res[()] == wrong) for pc, res, exc, _ in pts if exc is None])
            ck.control(f"control.{fam}.{name}@{cfg}", assume, g)


def wrong_references(sp):
    if isinstance(sp, Box):
        return [("strict_upper_bound", dict(strict_high=True)), ("strict_lower_bound", dict(strict_low=True))]
    if isinstance(sp, (Discrete, MultiDiscrete)):
        return [("no_integrality", dict(integral=False)), ("inclusive_upper", dict(upper_strict=False))]
    return []


def zeros(shape, dt):
    return jnp.zeros(shape, dt)


def leaf_configs(thorough):
    """static configurations: (space, [candidates]); first candidate of each space gets witnesses + controls"""
    f, i, b = jnp.float32, jnp.int32, jnp.bool_
    cfgs = []

    def shapes_for(shape):
        wrong = [shape + (1,), (shape[0] + 1,) + shape[1:] if shape else (2,)]
        if shape:
            wrong.append(shape[1:])
        return wrong

    def add(sp, shape, dts=(f, i, b), wrong_dts=(f,)):
        cands = [zeros(shape, dt) for dt in dts]
        for ws in shapes_for(shape):
            for dt in wrong_dts:
                cands.append(zeros(ws, dt))
        cfgs.append((sp, cands))
    for n in ([1, 3] if not thorough else [1, 2, 3, 4]):
        add(Discrete(n), (), wrong_dts=(f, i) if thorough else (f,))
    for nvec in ([(3, 2), (1,)] if not thorough else [(3, 2), (1,), (2, 2, 3), (4, 1, 2, 3)]):
        add(MultiDiscrete(nvec), (len(nvec),), wrong_dts=(f, i) if thorough else (f,))
    for n in ([3, (2, 3)] if not thorough else [3, 1, (2, 3), (2, 1, 2), (4,)]):
        sp = MultiBinary(n)
        add(sp, tuple(sp.n), wrong_dts=(f, b) if thorough else (f,))
    for shape in ([(), (2,)] if not thorough else [(), (2,), (2, 2), (4,), (1, 3)]):
        add(Box(jnp.zeros(shape), jnp.ones(shape)), shape, wrong_dts=(f, i) if thorough else (f,))
    return cfgs


def sec_contains_leaf(ck):
    for sp, cands in leaf_configs(ck.thorough):
        for j, x in enumerate(cands):
            with ck.section(f"contains {sp_label(sp)} {cand_label(x)}"):
                check_contains(ck, sp, x, controls=(j == 0), validate=(j < 3))


def main():
    ck = Check("C14", "Spaces: exact membership, member samples, coherent equality")
    ck.mode = "FP32"
    sec_contains_leaf(ck)
    ck.finish("...")


if __name__ == "__main__":
    main()
