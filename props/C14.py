"""C14 — Spaces: exact membership, member samples, coherent equality."""
import itertools
import math
import os
from collections import OrderedDict

import jax
import jax.numpy as jnp
import numpy as np
import z3
from jax import random as jr

from jaxsmt import concrete, core, solve, stubs
from jaxsmt.core import Check, conj, disj, implies, neg
from jaxsmt.interp import Interp, arr0, kind
from jaxsmt.ops import F32, RNE, FPOps, Unsupported, isconc
from jaxsmt.trace import explore, trace

from lerax.space import Box, Dict, Discrete, MultiBinary, MultiDiscrete, Tuple

from props import c14_xhair

INT_ABS = 1 << 24          # integer candidates are exactly representable in float32 (stated bound)
BOX_ABS = 2.0 ** 126       # finite Box bounds in canonical(): low+high cannot overflow (stated bound)


# ===================================================================== the statement's membership predicate
# Written from the statement, twice: over solver terms (z_member) and over concrete Python numbers (py_member,
# used only when a counterexample is replayed on the real classes).
def _fpv(v):
    return z3.FPVal(float(v), F32)


def _ekind(e):
    """kind of an element: 'f' float32 term, 'i' integer term, 'b' boolean term (or concrete Python value)"""
    if isconc(e):
        if isinstance(e, (bool, np.bool_)):
            return "b"
        if isinstance(e, (int, np.integer)):
            return "i"
        return "f"
    if z3.is_fp(e):
        return "f"
    if z3.is_bool(e):
        return "b"
    if z3.is_int(e):
        return "i"
    return "r"


def _z(e):
    if not isconc(e):
        return e
    if isinstance(e, (bool, np.bool_)):
        return z3.BoolVal(bool(e))
    if isinstance(e, (int, np.integer)):
        return z3.IntVal(int(e))
    f = float(e)
    if f != f:
        return z3.fpNaN(F32)
    if math.isinf(f):
        return z3.fpPlusInfinity(F32) if f > 0 else z3.fpMinusInfinity(F32)
    return z3.FPVal(f, F32)


def z_index(e, n, *, integral=True, lower=True, upper_strict=True):
    """e is a whole number with 0 <= e < n (flags exist only to build deliberately wrong references)"""
    e = _z(e)
    k = _ekind(e)
    if k == "b":
        return z3.Or(z3.Not(e), z3.BoolVal(n > 1)) if upper_strict else z3.BoolVal(True)
    if k == "i":
        cs = [e < n if upper_strict else e <= n]
        if lower:
            cs.append(e >= 0)
        return z3.And(cs)
    if k == "f":
        cs = [z3.Not(z3.fpIsNaN(e)), z3.Not(z3.fpIsInf(e))]
        if integral:
            cs.append(z3.fpEQ(z3.fpRoundToIntegral(z3.RTZ(), e), e))
        if lower:
            cs.append(z3.fpGEQ(e, _fpv(0.0)))
        cs.append(z3.fpLT(e, _fpv(n)) if upper_strict else z3.fpLEQ(e, _fpv(n)))
        return z3.And(cs)
    # real (REAL mode): floats are reals
    cs = [e < n if upper_strict else e <= n]
    if lower:
        cs.append(e >= 0)
    if integral:
        cs.append(z3.ToReal(z3.ToInt(e)) == e)
    return z3.And(cs)


def z_bit(e):
    e = _z(e)
    k = _ekind(e)
    if k == "b":
        return z3.BoolVal(True)
    if k == "i":
        return z3.Or(e == 0, e == 1)
    if k == "f":
        return z3.Or(z3.fpIsZero(e), z3.fpEQ(e, _fpv(1.0)))
    return z3.Or(e == 0, e == 1)


def z_between(e, lo, hi, *, strict_low=False, strict_high=False):
    """lo <= e <= hi as numbers (inclusive), NaN never inside"""
    e, lo, hi = _z(e), _z(lo), _z(hi)
    k = _ekind(e)
    if _ekind(lo) == "r" or k == "r":
        # REAL mode
        if k == "b":
            e = z3.If(e, z3.RealVal(1), z3.RealVal(0))
        elif k == "i":
            e = z3.ToReal(e)
        return z3.And(lo < e if strict_low else lo <= e, e < hi if strict_high else e <= hi)
    if k == "b":
        e = z3.If(e, _fpv(1.0), _fpv(0.0))
    elif k == "i":
        # |e| <= 2^24 is assumed for integer candidates, so the conversion is exact
        bv = _BVOPS[0].bv.get(e.get_id()) if _BVOPS[0] is not None else None
        e = z3.fpSignedToFP(z3.RNE(), bv, F32) if bv is not None else z3.fpToFP(z3.RNE(), z3.ToReal(e), F32)
    return z3.And(z3.Not(z3.fpIsNaN(e)),
                  z3.fpLT(lo, e) if strict_low else z3.Not(z3.fpGT(lo, e)),
                  z3.fpLT(e, hi) if strict_high else z3.Not(z3.fpGT(e, hi)),
                  z3.Not(z3.fpIsNaN(lo)), z3.Not(z3.fpIsNaN(hi)))


def z_member(sp, x, S=None, prefix="sp", **flags):
    """membership of the candidate `x` (pytree of object arrays of terms / foreign Python objects) in `sp`.
    Box bounds are taken from S[prefix_low/high] (symbolic) when present, else from the space object."""
    if isinstance(sp, Tuple):
        if not isinstance(x, tuple) or len(x) != len(sp.spaces):
            return False
        return conj([z_member(s, xi, S, f"{prefix}_spaces_{i}", **flags) for i, (s, xi) in enumerate(zip(sp.spaces, x))])
    if isinstance(sp, Dict):
        if not isinstance(x, dict) or set(x.keys()) != set(sp.spaces.keys()):
            return False
        return conj([z_member(s, x[k], S, f"{prefix}_spaces_{k}", **flags) for k, s in sp.spaces.items()])
    if not isinstance(x, np.ndarray):
        return False
    if isinstance(sp, Discrete):
        if x.shape != ():
            return False
        return z_index(x[()], sp.n, **flags)
    if isinstance(sp, MultiDiscrete):
        if x.shape != (len(sp.nvec),):
            return False
        return conj([z_index(x[i], sp.nvec[i], **flags) for i in range(len(sp.nvec))])
    if isinstance(sp, MultiBinary):
        if x.shape != tuple(sp.n):
            return False
        return conj([z_bit(x[i]) for i in np.ndindex(*x.shape)])
    if isinstance(sp, Box):
        if x.shape != tuple(sp.low.shape):
            return False
        if S is not None and f"{prefix}_low" in S:
            lo, hi = S[f"{prefix}_low"], S[f"{prefix}_high"]
        else:
            lo, hi = np.asarray(sp.low), np.asarray(sp.high)
        bf = {k: v for k, v in flags.items() if k in ("strict_low", "strict_high")}
        return conj([z_between(x[i], lo[i], hi[i], **bf) for i in np.ndindex(*x.shape)])
    raise TypeError(type(sp))


def py_member(sp, x):
    """the same predicate on concrete values (replay only)"""
    if isinstance(sp, Tuple):
        return isinstance(x, tuple) and len(x) == len(sp.spaces) and all(py_member(s, xi) for s, xi in zip(sp.spaces, x))
    if isinstance(sp, Dict):
        return isinstance(x, dict) and set(x.keys()) == set(sp.spaces.keys()) and all(py_member(s, x[k]) for k, s in sp.spaces.items())
    try:
        a = np.asarray(x)
    except Exception:  # noqa: BLE001
        return False
    if a.dtype.kind not in "biuf":
        return False
    vals = [float(v) for v in a.reshape(-1)]
    if isinstance(sp, Discrete):
        return a.shape == () and all(math.isfinite(v) and v == math.floor(v) and 0 <= v < sp.n for v in vals)
    if isinstance(sp, MultiDiscrete):
        return a.shape == (len(sp.nvec),) and all(math.isfinite(v) and v == math.floor(v) and 0 <= v < n for v, n in zip(vals, sp.nvec))
    if isinstance(sp, MultiBinary):
        return a.shape == tuple(sp.n) and all(v in (0.0, 1.0) for v in vals)
    if isinstance(sp, Box):
        lo = [float(v) for v in np.asarray(sp.low).reshape(-1)]
        hi = [float(v) for v in np.asarray(sp.high).reshape(-1)]
        return a.shape == tuple(sp.low.shape) and all(v == v and l <= v <= h for v, l, h in zip(vals, lo, hi))
    raise TypeError(type(sp))


# ===================================================================== integer candidates promoted to float32
class BVIntOps(FPOps):
    """FP32 element operations in which selected integer symbols are backed by a signed 32-bit bit-vector, so that the
    int32 -> float32 promotion (`convert_element_type`) is z3's native, bit-blasted `to_fp` from a signed bit-vector
    instead of Int -> Real -> FP (which z3 does not decide in reasonable time).  The integer term handed to the
    interpreter is the bit-vector's signed value, so integer operations on it stay exact."""

    def __init__(self):
        super().__init__()
        self.bv = {}

    def int_symbol(self, name):
        bv = z3.BitVec(name + "_bv", 32)
        t = z3.BV2Int(bv, is_signed=True)
        self.bv[t.get_id()] = bv
        return t

    def sym(self, name, dtype):
        if np.issubdtype(np.dtype(dtype), np.integer):
            return self.int_symbol(name)
        return super().sym(name, dtype)

    def i2f(self, x):
        if not isconc(x) and x.get_id() in self.bv:
            return z3.fpSignedToFP(RNE, self.bv[x.get_id()], F32)
        return super().i2f(x)


def fp_interp(bv_ints=False):
    it = Interp(mode="fp32")
    if bv_ints:
        o = BVIntOps()
        o.fold_transcendentals = it.o.fold_transcendentals
        it.o = o
    return it


_BVOPS = [None]


# ===================================================================== helpers
def sp_label(sp):
    if isinstance(sp, Box):
        return f"Box{tuple(sp.low.shape)}"
    if isinstance(sp, Discrete):
        return f"Discrete({sp.n})"
    if isinstance(sp, MultiDiscrete):
        return f"MultiDiscrete({','.join(map(str, sp.nvec))})"
    if isinstance(sp, MultiBinary):
        return f"MultiBinary({','.join(map(str, sp.n))})"
    if isinstance(sp, Tuple):
        return "Tuple[" + ";".join(sp_label(s) for s in sp.spaces) + "]"
    if isinstance(sp, Dict):
        return "Dict[" + ";".join(f"{k}:{sp_label(s)}" for k, s in sp.spaces.items()) + "]"
    return type(sp).__name__


def has_box(sp):
    if isinstance(sp, Box):
        return True
    if isinstance(sp, Tuple):
        return any(has_box(s) for s in sp.spaces)
    if isinstance(sp, Dict):
        return any(has_box(s) for s in sp.spaces.values())
    return False


def family(sp):
    return type(sp).__name__


def cand_label(x):
    if isinstance(x, (jax.Array, np.ndarray)):
        return f"{np.dtype(x.dtype).name},{tuple(x.shape)}"
    if isinstance(x, tuple):
        return "(" + ";".join(cand_label(v) for v in x) + ")"
    if isinstance(x, dict):
        return type(x).__name__ + "{" + ";".join(f"{k}:{cand_label(v)}" for k, v in x.items()) + "}"
    return type(x).__name__


def tree_of(tr, S, argname):
    """the argument `argname` of a Traced rebuilt as a pytree whose array leaves are the symbol arrays"""
    idx = tr._argnames.index(argname)
    arg = tr.args[idx]
    names = iter([n for n in tr.in_names if n == argname or n.startswith(argname + "_")])
    leaves, treedef = jax.tree_util.tree_flatten(arg)
    new = []
    for l in leaves:
        new.append(S[next(names)] if concrete._isleaf(l) else l)
    return _unflatten_obj(treedef, new)


def _unflatten_obj(treedef, leaves):
    # object arrays are not valid JAX leaves for every treedef operation; unflatten works structurally
    return jax.tree_util.tree_unflatten(treedef, leaves)


def path_terms(paths, it, S):
    """run every explored path on the shared symbols -> list of (pc, result array | None, exception)"""
    out = []
    for dec, tr, exc in paths:
        if tr is None:
            raise RuntimeError(f"path {dec} raised {exc!r} before a path condition could be recovered")
        o = tr.run(it, S)
        names = tr.out_names
        if exc is None:
            res = o[names[0]]
            conds = [o[n][()] for n in names[1:]]
        else:
            res = None
            conds = [o[n][()] for n in names]
        conds = conds[:len(dec)]
        pc = conj([c if d else neg(c) for c, d in zip(conds, dec)])
        out.append((pc, res, exc, tr))
    return out


def int_range(S, names, bound=INT_ABS):
    cs = []
    for n in names:
        for e in S[n].reshape(-1):
            if not isconc(e) and z3.is_int(e):
                bv = _BVOPS[0].bv.get(e.get_id()) if _BVOPS[0] is not None else None
                cs += [bv >= -bound, bv <= bound] if bv is not None else [e >= -bound, e <= bound]
    return cs


def model_args(tr, S, res):
    keys = concrete.KeyBinding(res)
    vals = [concrete.model_leaf(res, S[n], av, keys) for n, av in zip(tr.in_names, tr.in_avals)]
    return concrete.rebuild_args(tr, vals), vals


def fl(v):
    a = np.asarray(v)
    return a.tolist()


def describe(x):
    return jax.tree_util.tree_map(lambda l: fl(l) if hasattr(l, "dtype") else repr(l), x)


def validate_paths(ck, paths, fn, points, label):
    """translator validation for path-forked traces: on concrete inputs exactly one explored path must be
    feasible and its interpreted result must equal what the real function returns when run eagerly"""
    bad = 0
    for leaves in points:
        tr0 = paths[0][1]
        args = concrete.rebuild_args(tr0, leaves)
        real = np.asarray(fn(*args))
        it = concrete.ConcInterp(mode="fp32")
        hits = []
        for dec, tr, exc in paths:
            outs = it.run(tr.jaxpr, tr.consts, [concrete.lift_leaf(it, v, av) for v, av in zip(leaves, tr.in_avals)])
            if exc is None:
                r, conds = outs[0], [o[()] for o in outs[1:]]
            else:
                r, conds = None, [o[()] for o in outs]
            if all(bool(c) == d for c, d in zip(conds, dec)):
                hits.append((r, exc))
        ok = len(hits) == 1 and hits[0][1] is None and np.array_equal(np.asarray(hits[0][0], dtype=bool).reshape(real.shape) if hits[0][0] is not None and np.asarray(hits[0][0]).size == real.size else None, real)
        ck.validation["points"] += 1
        if not ok:
            bad += 1
            ck.log(f"translator validation MISMATCH in {label}: inputs {[fl(v) for v in leaves]} real={real} interp={[(None if r is None else r.tolist(), repr(e)) for r, e in hits]}")
    ck.validation["programs"] += 1
    ck.validation["mismatches"] += bad
    if bad:
        ob = ck._new(f"translator.{label}", "witness")
        ob.status = "mismatch"
        ck.inconclusive.append(ob)
    return bad == 0


SPECIAL_F = [0.0, 1.0, -1.0, 2.0, 0.5, 3.0, -0.0, math.nan, math.inf, -math.inf, 1.5, 2.5]


def special_leaf(av, rng):
    dt = np.dtype(av.dtype)
    if dt == np.bool_:
        return jnp.asarray(rng.random(av.shape) < 0.5)
    if np.issubdtype(dt, np.integer):
        return jnp.asarray(rng.integers(-2, 4, size=av.shape), dtype=dt)
    return jnp.asarray(rng.choice(SPECIAL_F, size=av.shape), dtype=dt)


# ===================================================================== contains
def contains_fn(sp, x):
    return sp.contains(x)


def check_contains(ck, sp, x, *, controls=False, validate=True):
    """<space>.contains.scalar_bool and <space>.contains.iff_oracle for one static configuration
    (space parameters that are Python values, candidate dtype and shape); candidate values and Box bounds symbolic"""
    fam = family(sp)
    cfg = f"{sp_label(sp)}|{cand_label(x)}"
    try:
        paths = explore(contains_fn, sp, x, argnames=["sp", "x"], label=f"{fam}.contains")
    except Exception as ex:  # noqa: BLE001
        # an exception other than the ones `explore` keeps as "raises" paths: if the real class raises it eagerly too
        # (concrete candidate of this structure), contains does not answer -> violation; otherwise a harness problem
        try:
            sp.contains(jax.tree_util.tree_map(lambda l: jnp.zeros(l.shape, l.dtype) if hasattr(l, "dtype") else l, x))
        except Exception as ex2:  # noqa: BLE001
            if type(ex2) is type(ex):
                ck.fact(f"{fam}.contains.scalar_bool@{cfg}", False, f"real {sp!r}.contains(zeros {cand_label(x)}) raises {ex2!r} instead of answering")
                return
        raise
    for dec, tr, exc in paths:
        if tr is not None:
            tr._argnames = ["sp", "x"]
    first = next(tr for _, tr, _ in paths if tr is not None)
    ck.encoded(first)
    # ---- result aval: a scalar boolean on every path
    bad = []
    for dec, tr, exc in paths:
        if exc is None:
            av = tr.out_avals[0]
            if tuple(av.shape) != () or np.dtype(av.dtype) != np.bool_:
                bad.append((dec, str(av)))
    detail = f"{len(paths)} paths; result avals " + ", ".join(sorted({str(tr.out_avals[0]) for _, tr, e in paths if e is None}))
    scalar = not bad
    if bad:
        # replay on the real class, eagerly, on a concrete candidate of this shape
        r = sp.contains(jax.tree_util.tree_map(lambda l: jnp.zeros(l.shape, l.dtype), x))
        detail += f"; real {sp!r}.contains(zeros{cand_label(x)}) returned shape {tuple(np.shape(r))} dtype {np.asarray(r).dtype}"
        scalar = np.shape(r) == () and np.asarray(r).dtype == np.bool_
    ck.fact(f"{fam}.contains.scalar_bool@{cfg}", scalar, detail)
    if not scalar:
        return
    # ---- value: true exactly on members
    it = fp_interp(bv_ints=has_box(sp))
    _BVOPS[0] = it.o if isinstance(it.o, BVIntOps) else None
    S = first.symbols(it)
    pts = path_terms(paths, it, S)
    xs = tree_of(first, S, "x")
    oracle = z_member(sp, xs, S)
    assume = int_range(S, [n for n in first.in_names if n == "x" or n.startswith("x_")], INT_ABS if has_box(sp) else (1 << 31) - 1)
    goals = [disj([pc for pc, _, _, _ in pts])]
    for pc, res, exc, tr in pts:
        if exc is not None:
            goals.append(neg(pc))          # a raising path must be infeasible
        else:
            r = res[()]
            goals.append(implies(pc, r == oracle if not (isconc(r) and isconc(oracle)) else bool(r) == bool(oracle)))

    def rp(res, first=first, S=S, sp=sp):
        (sp_c, x_c), _ = model_args(first, S, res)
        want = py_member(sp_c, x_c)
        try:
            got = sp_c.contains(x_c)
            gotd = {"value": fl(got), "shape": list(np.shape(got))}
            differs = np.shape(got) != () or bool(got) != want
        except Exception as ex:  # noqa: BLE001
            gotd = {"raised": repr(ex)}
            differs = True
        return differs, {"space": repr(sp_c), "candidate": describe(x_c), "real_contains": gotd, "member_by_statement": want}
    ck.prove(f"{fam}.contains.iff_oracle@{cfg}", assume, conj(goals), replay=rp)
    if validate:
        rng = np.random.default_rng(ck.seed + 5)
        points = [[special_leaf(av, rng) for av in first.in_avals] for _ in range(3)]
        validate_paths(ck, paths, contains_fn, points, f"{fam}.contains@{cfg}")
    if controls:
        ck.witness(f"witness.{fam}.member_exists@{cfg}", assume + [oracle])
        ck.witness(f"witness.{fam}.nonmember_exists@{cfg}", assume + [neg(oracle)])
        for name, flags in wrong_references(sp):
            wrong = z_member(sp, xs, S, **flags)
            g = conj([implies(pc, res[()] == wrong) for pc, res, exc, _ in pts if exc is None])
            ck.control(f"control.{fam}.{name}@{cfg}", assume, g)


def wrong_references(sp):
    if isinstance(sp, Box):
        return [("strict_upper_bound", dict(strict_high=True)), ("strict_lower_bound", dict(strict_low=True))]
    if isinstance(sp, (Discrete, MultiDiscrete)):
        return [("no_integrality", dict(integral=False)), ("inclusive_upper", dict(upper_strict=False))]
    return []


def zeros(shape, dt):
    return jnp.zeros(shape, dt)


def leaf_configs(thorough):
    """static configurations: (space, [candidates]); first candidate of each space gets witnesses + controls"""
    f, i, b = jnp.float32, jnp.int32, jnp.bool_
    cfgs = []

    def shapes_for(shape):
        wrong = [shape + (1,), (shape[0] + 1,) + shape[1:] if shape else (2,)]
        if shape:
            wrong.append(shape[1:])
        return wrong

    def add(sp, shape, dts=(f, i, b), wrong_dts=(f,)):
        cands = [zeros(shape, dt) for dt in dts]
        for ws in shapes_for(shape):
            for dt in wrong_dts:
                cands.append(zeros(ws, dt))
        cfgs.append((sp, cands))
    for n in ([1, 3] if not thorough else [1, 2, 3, 4]):
        add(Discrete(n), (), wrong_dts=(f, i) if thorough else (f,))
    for nvec in ([(3, 2), (1,)] if not thorough else [(3, 2), (1,), (2, 2, 3), (4, 1, 2, 3)]):
        add(MultiDiscrete(nvec), (len(nvec),), wrong_dts=(f, i) if thorough else (f,))
    for n in ([3, (2, 3)] if not thorough else [3, 1, (2, 3), (2, 1, 2), (4,)]):
        sp = MultiBinary(n)
        add(sp, tuple(sp.n), wrong_dts=(f, b) if thorough else (f,))
    for shape in ([(), (2,)] if not thorough else [(), (2,), (2, 2), (4,), (1, 3)]):
        add(Box(jnp.zeros(shape), jnp.ones(shape)), shape, wrong_dts=(f, i) if thorough else (f,))
    return cfgs


def sec_contains_leaf(ck):
    for sp, cands in leaf_configs(ck.thorough):
        for j, x in enumerate(cands):
            with ck.section(f"contains {sp_label(sp)} {cand_label(x)}"):
                check_contains(ck, sp, x, controls=(j == 0), validate=(j < 3))


# ===================================================================== Dict / Tuple contains
def nested_configs(thorough):
    f, i, b = jnp.float32, jnp.int32, jnp.bool_
    z = zeros
    cfgs = []
    t1 = Tuple((Discrete(3), Box(jnp.zeros(2), jnp.ones(2))))
    cfgs.append((t1, [(z((), i), z((2,), f)), (z((), f), z((2,), i)),
                      (z((), i),), (z((), i), z((2,), f), z((), i)), [z((), i), z((2,), f)], z((2,), f), (z((2,), f), z((), i)),
                      (z((1,), i), z((2,), f)), None, "ab"]))
    d1 = Dict({"a": Discrete(2), "b": MultiDiscrete((2, 2))})
    cfgs.append((d1, [OrderedDict(a=z((), i), b=z((2,), i)), OrderedDict(b=z((2,), f), a=z((), f)),
                      OrderedDict(a=z((), i)), OrderedDict(a=z((), i), b=z((2,), i), c=z((), i)), OrderedDict(a=z((), i), c=z((2,), i)),
                      OrderedDict(a=z((), i), b=z((3,), i)), (z((), i), z((2,), i)), z((3,), i), None]))
    n1 = Tuple((Dict({"k": Box(0.0, 1.0), "m": MultiBinary(2)}), Discrete(2)))
    cfgs.append((n1, [(OrderedDict(k=z((), f), m=z((2,), b)), z((), i)), (OrderedDict(k=z((), f), m=z((2,), f)), z((), f)),
                      (OrderedDict(k=z((), f)), z((), i)), ((z((), f), z((2,), b)), z((), i))]))
    n2 = Dict({"t": Tuple((Discrete(2), Box(0.0, 1.0))), "u": MultiBinary((2,))})
    cfgs.append((n2, [OrderedDict(t=(z((), i), z((), f)), u=z((2,), i)), OrderedDict(t=(z((), i),), u=z((2,), i)),
                      OrderedDict(t=[z((), i), z((), f)], u=z((2,), i))]))
    if thorough:
        t3 = Tuple((Discrete(2), MultiDiscrete((2, 3)), MultiBinary(2)))
        cfgs.append((t3, [(z((), i), z((2,), i), z((2,), b)), (z((), f), z((2,), f), z((2,), f)), (z((), i), z((2,), i))]))
        d3 = Dict({"x": Box(jnp.zeros(3), jnp.ones(3)), "y": Discrete(4), "z": Tuple((Discrete(2), Discrete(3)))})
        cfgs.append((d3, [OrderedDict(x=z((3,), f), y=z((), i), z=(z((), i), z((), i))), OrderedDict(x=z((3,), i), y=z((), f), z=(z((), f), z((), i)))]))
        n3 = Tuple((Tuple((Box(0.0, 1.0), Discrete(2))), Dict({"p": MultiDiscrete((2,)), "q": Box(jnp.zeros(2), jnp.ones(2))})))
        cfgs.append((n3, [((z((), f), z((), i)), OrderedDict(p=z((1,), i), q=z((2,), f))), ((z((), f), z((), i)), OrderedDict(p=z((1,), f)))]))
    return cfgs


def sec_contains_nested(ck):
    for sp, cands in nested_configs(ck.thorough):
        for j, x in enumerate(cands):
            with ck.section(f"contains {sp_label(sp)} {cand_label(x)}"):
                check_contains(ck, sp, x, controls=(j == 0), validate=(j == 0))


# ===================================================================== sample() / canonical() are members
def sample_fn(sp, key):
    with stubs.prng_stubs():
        return sp.sample(key=key)


def sample_mask_fn(sp, key, mask):
    with stubs.prng_stubs():
        return sp.sample(key=key, mask=mask)


def box_leaves(sp, prefix="sp"):
    """[(name prefix, Box)] of every Box inside sp, named as trace() names the leaves"""
    if isinstance(sp, Box):
        return [(prefix, sp)]
    if isinstance(sp, Tuple):
        return [b for i, s in enumerate(sp.spaces) for b in box_leaves(s, f"{prefix}_spaces_{i}")]
    if isinstance(sp, Dict):
        return [b for k, s in sp.spaces.items() for b in box_leaves(s, f"{prefix}_spaces_{k}")]
    return []


BOUNDEDNESS = ["bounded", "below", "above", "unbounded"]   # which of (low, high) are finite


def apply_boundedness(S, name, pattern):
    """replace the symbolic bounds of Box `name` by -inf / +inf according to `pattern` (one class per element);
    returns the well-formedness assumption low <= high for the elements where both are finite"""
    lo, hi = S[f"{name}_low"], S[f"{name}_high"]
    wf = []
    for n, idx in enumerate(np.ndindex(*lo.shape)):
        c = pattern[n % len(pattern)]
        if c in ("above", "unbounded"):
            lo[idx] = -math.inf
        if c in ("below", "unbounded"):
            hi[idx] = math.inf
        if c == "bounded":
            wf.append(lo[idx] <= hi[idx])
    return wf


def r_between(e, lo, hi):
    """REAL mode: lo <= e <= hi where a bound may be a concrete infinity and e a concrete NaN/inf"""
    if isconc(e) and isinstance(e, float) and (e != e or math.isinf(e)):
        if e != e:
            return False
        return (isconc(hi) and hi == e) if e > 0 else (isconc(lo) and lo == e)
    cs = []
    if isconc(lo) and isinstance(lo, float) and math.isinf(lo):
        if lo > 0:
            return False
    else:
        cs.append(_rz(lo) <= _rz(e))
    if isconc(hi) and isinstance(hi, float) and math.isinf(hi):
        if hi < 0:
            return False
    else:
        cs.append(_rz(e) <= _rz(hi))
    return conj(cs)


def _rz(v):
    if not isconc(v):
        return z3.ToReal(v) if z3.is_int(v) else (z3.If(v, z3.RealVal(1), z3.RealVal(0)) if z3.is_bool(v) else v)
    from fractions import Fraction
    return z3.RealVal(Fraction(v)) if not isinstance(v, (bool, np.bool_)) else z3.RealVal(int(v))


def r_member(sp, x, S, prefix="sp"):
    """the statement's membership predicate in REAL mode (floats are reals; Box bounds may be concrete infinities)"""
    if isinstance(sp, Tuple):
        if not isinstance(x, tuple) or len(x) != len(sp.spaces):
            return False
        return conj([r_member(s, xi, S, f"{prefix}_spaces_{i}") for i, (s, xi) in enumerate(zip(sp.spaces, x))])
    if isinstance(sp, Dict):
        if not isinstance(x, dict) or set(x.keys()) != set(sp.spaces.keys()):
            return False
        return conj([r_member(s, x[k], S, f"{prefix}_spaces_{k}") for k, s in sp.spaces.items()])
    if not isinstance(x, np.ndarray):
        return False
    if isinstance(sp, Box):
        if x.shape != tuple(sp.low.shape):
            return False
        lo, hi = S[f"{prefix}_low"], S[f"{prefix}_high"]
        return conj([r_between(x[i], lo[i], hi[i]) for i in np.ndindex(*x.shape)])
    return z_member(sp, x, None)


def out_tree(tr, out):
    """outputs of a Traced as the pytree the function returned"""
    leaves = [out[n] for n in tr.out_names]
    struct_leaves, treedef = jax.tree_util.tree_flatten(tr.out_struct)
    assert len(struct_leaves) == len(leaves)
    return jax.tree_util.tree_unflatten(treedef, leaves)


def run_with_model(fn, tr, S, res, uf_apps):
    """the real lerax function on the model's inputs, random draws bound to the model's values"""
    from jaxsmt.uf import world
    keys = concrete.KeyBinding(res)
    w = concrete.ModelWorld(res, uf_apps, keys)
    vals = [concrete.model_leaf(res, S[n], av, keys) for n, av in zip(tr.in_names, tr.in_avals)]
    args = concrete.rebuild_args(tr, vals)
    with world(w):
        out = fn(*args)
        out = jax.block_until_ready(out)
    return args, out, w


def check_sample(ck, sp, patterns=(None,)):
    fam = family(sp)
    tr = trace(sample_fn, sp, jr.key(0), argnames=["sp", "key"], label=f"{fam}.sample")
    tr._argnames = ["sp", "key"]
    ck.encoded(tr)
    concrete.validate(ck, tr, n=2, seed=ck.seed, label=f"{fam}.sample@{sp_label(sp)}")
    boxes = box_leaves(sp)
    for pat in patterns:
        # infinite bounds make non-finite intermediates real (inf - inf, 0 * inf): those configurations are interpreted over the reals extended with the IEEE
        # special values (XREAL), where 0 * x is 0 only for finite x; all-finite configurations stay in plain REAL mode
        from jaxsmt.xreal import XRInterp
        it = XRInterp() if (pat and any(c != "bounded" for c in pat)) else Interp()
        S = tr.symbols(it)
        wf = []
        for name, _ in boxes:
            wf += apply_boundedness(S, name, pat)
        out = tr.run(it, S)
        sample = out_tree(tr, out)
        goal = r_member(sp, sample, S)
        assume = wf + stubs.contracts(it)
        cfg = sp_label(sp) + (f"|bounds={'/'.join(pat)}" if pat else "")

        def rp(res, tr=tr, S=S, it=it):
            (sp_c, _), smp, w = run_with_model(sample_fn, tr, S, res, it.uf_apps)
            want = py_member(sp_c, smp)
            got = sp_c.contains(smp)
            return (not want), {"space": repr(sp_c), "sample": describe(smp), "member_by_statement": want, "real_contains": fl(got), "draws_bound": w.hits}
        ck.prove(f"{fam}.sample_member@{cfg}", assume, goal, replay=rp)
    if boxes:
        ck.witness(f"witness.{fam}.sample_assumptions@{sp_label(sp)}", assume)
    if isinstance(sp, Box):
        # negative control: "samples of a bounded box lie strictly inside" is wrong (the uniform draw may return low)
        it = Interp()
        S = tr.symbols(it)
        wf = apply_boundedness(S, "sp", ("bounded",))
        smp = tr.run(it, S)[tr.out_names[0]]
        strict = conj([z3.And(S["sp_low"][i] < smp[i], smp[i] < S["sp_high"][i]) for i in np.ndindex(*smp.shape)])
        ck.control(f"control.Box.sample_strictly_inside@{sp_label(sp)}", wf + stubs.contracts(it), strict)
    if isinstance(sp, MultiDiscrete):
        it = Interp()
        S = tr.symbols(it)
        smp = tr.run(it, S)[tr.out_names[0]]
        ck.control(f"control.MultiDiscrete.sample_below_last_index@{sp_label(sp)}", stubs.contracts(it), conj([smp[i] < sp.nvec[i] - 1 for i in range(len(sp.nvec))]))


def check_discrete_mask(ck, n):
    sp = Discrete(n)
    tr = trace(sample_mask_fn, sp, jr.key(0), jnp.ones((n,), bool), argnames=["sp", "key", "mask"], label="Discrete.sample[mask]")
    ck.encoded(tr)
    it = Interp()
    S = tr.symbols(it)
    out = tr.run(it, S)
    s = out[tr.out_names[0]]
    m = list(S["mask"])
    some = disj(m)
    allowed = disj([z3.And(s[()] == i, m[i]) for i in range(n)])
    goal = conj([z_member(sp, s), allowed])
    assume = [some] + stubs.contracts(it)

    def rp(res, tr=tr, S=S, it=it):
        (sp_c, _, mask), smp, w = run_with_model(sample_mask_fn, tr, S, res, it.uf_apps)
        mk = np.asarray(mask)
        ok = py_member(sp_c, smp) and bool(mk[int(smp)])
        return (not ok), {"space": repr(sp_c), "mask": mk.tolist(), "sample": fl(smp), "draws_bound": w.hits}
    ck.prove(f"Discrete.sample_member@Discrete({n}),mask", assume, goal, replay=rp)
    if n >= 2:
        ck.witness(f"witness.Discrete.mask_excludes_something@Discrete({n})", assume + [neg(m[0])])
        # negative control: a sampler that ignores the mask would be allowed to return a masked-out index
        ck.control(f"control.Discrete.mask_ignored@Discrete({n})", [some, s[()] >= 0, s[()] < n], allowed)


def canonical_fn(sp):
    return sp.canonical()


def check_canonical(ck, sp):
    fam = family(sp)
    tr = trace(canonical_fn, sp, argnames=["sp"], label=f"{fam}.canonical")
    ck.encoded(tr)
    boxes = box_leaves(sp)
    it = fp_interp()
    _BVOPS[0] = None
    S = tr.symbols(it)
    out = tr.run(it, S)
    can = out_tree(tr, out)
    assume = []
    big = _fpv(BOX_ABS)
    for name, _ in boxes:
        for lo, hi in zip(S[f"{name}_low"].reshape(-1), S[f"{name}_high"].reshape(-1)):
            assume += [z3.Not(z3.fpIsNaN(lo)), z3.Not(z3.fpIsNaN(hi)), z3.fpLEQ(lo, hi),
                       z3.Not(z3.fpEQ(lo, z3.fpPlusInfinity(F32))), z3.Not(z3.fpEQ(hi, z3.fpMinusInfinity(F32))),
                       z3.Or(z3.fpIsInf(lo), z3.fpLEQ(z3.fpAbs(lo), big)), z3.Or(z3.fpIsInf(hi), z3.fpLEQ(z3.fpAbs(hi), big)),
                       z3.Not(z3.fpIsSubnormal(lo)), z3.Not(z3.fpIsSubnormal(hi))]
    goal = z_member(sp, can, S)

    def rp(res, tr=tr, S=S):
        (sp_c,), _ = model_args(tr, S, res)
        c = sp_c.canonical()
        want = py_member(sp_c, c)
        return (not want), {"space": repr(sp_c), "canonical": describe(c), "member_by_statement": want, "real_contains": fl(sp_c.contains(c))}
    ck.prove(f"{fam}.canonical_member@{sp_label(sp)}", assume, goal, replay=rp, timeout=240 if ck.thorough else 60)
    if isinstance(sp, Box):
        # negative control: "canonical() is the lower bound" is wrong
        ck.control(f"control.Box.canonical_is_low@{sp_label(sp)}", assume, conj([z3.fpEQ(c, l) for c, l in zip(can.reshape(-1), S["sp_low"].reshape(-1))]))
    if boxes:
        ck.witness(f"witness.{fam}.unbounded_box_allowed@{sp_label(sp)}", assume + [z3.fpIsInf(S[f"{boxes[0][0]}_low"].reshape(-1)[0]), z3.fpIsInf(S[f"{boxes[0][0]}_high"].reshape(-1)[0])])


def member_spaces(thorough):
    sps = [Discrete(1), Discrete(3), MultiDiscrete((3, 2)), MultiBinary(3), MultiBinary((2, 2)), Box(0.0, 1.0), Box(jnp.zeros(2), jnp.ones(2)),
           Tuple((Discrete(2), Box(0.0, 1.0))), Dict({"a": MultiDiscrete((2, 2)), "b": MultiBinary(2)}),
           Tuple((Dict({"k": Box(0.0, 1.0), "m": MultiBinary(2)}), Discrete(2)))]
    if thorough:
        sps += [Discrete(4), MultiDiscrete((4, 1, 2, 3)), MultiBinary((2, 1, 2)), Box(jnp.zeros((2, 2)), jnp.ones((2, 2))), Box(jnp.zeros(4), jnp.ones(4)),
                Dict({"t": Tuple((Discrete(2), Box(0.0, 1.0))), "u": MultiBinary((2,)), "v": Box(jnp.zeros(2), jnp.ones(2))})]
    return sps


def patterns_for(sp, thorough):
    n = sum(int(np.prod(b.low.shape)) for _, b in box_leaves(sp))
    if n == 0:
        return [None]
    width = max(int(np.prod(b.low.shape)) for _, b in box_leaves(sp))
    pats = [tuple(p) for p in itertools.product(BOUNDEDNESS, repeat=min(width, 2))]
    if not thorough and width > 1:
        # every class in every position, every class next to every other class at least once
        pats = [p for k, p in enumerate(pats) if k % 3 == 0 or p[0] == p[1]]
    return pats


def sec_members(ck):
    for sp in member_spaces(ck.thorough):
        with ck.section(f"sample {sp_label(sp)}"):
            check_sample(ck, sp, patterns_for(sp, ck.thorough))
        with ck.section(f"canonical {sp_label(sp)}"):
            check_canonical(ck, sp)
    for n in ([1, 3] if not ck.thorough else [1, 2, 3, 4, 5]):
        with ck.section(f"mask Discrete({n})"):
            check_discrete_mask(ck, n)


# ===================================================================== flatten_sample
def flatten_fn(sp, x):
    return sp.flatten_sample(x)


def example_member(sp):
    """an example value of the sample type (only its structure, shapes and dtypes matter)"""
    return jax.tree_util.tree_map(lambda l: jnp.zeros(l.shape, l.dtype), sp.canonical())


def check_flatten(ck, sp):
    fam = family(sp)
    x = example_member(sp)
    tr = trace(flatten_fn, sp, x, argnames=["sp", "x"], label=f"{fam}.flatten_sample")
    tr._argnames = ["sp", "x"]
    ck.encoded(tr)
    concrete.validate(ck, tr, n=2, seed=ck.seed, label=f"{fam}.flatten_sample@{sp_label(sp)}")
    av = tr.out_avals[0] if len(tr.out_avals) == 1 else None
    ok = av is not None and tuple(av.shape) == (sp.flat_size,)
    ck.fact(f"{fam}.flatten_size@{sp_label(sp)}", ok, f"flatten_sample returns {[str(a) for a in tr.out_avals]}, flat_size={sp.flat_size}")
    if not ok:
        return
    it = Interp()
    S1 = tr.symbols(it, prefix="p_")
    S2 = tr.symbols(it, prefix="q_")
    for n in tr.in_names:
        if n.startswith("sp"):
            S2[n] = S1[n]                      # the same space
    f1 = tr.run(it, S1)[tr.out_names[0]]
    f2 = tr.run(it, S2)[tr.out_names[0]]
    x1, x2 = tree_of(tr, S1, "x"), tree_of(tr, S2, "x")
    names = [n for n in tr.in_names if n == "x" or n.startswith("x_")]
    same_flat = conj([core.eq_elem(a, b) for a, b in zip(f1, f2)])
    same_x = conj([core.eq_elem(a, b) for n in names for a, b in zip(S1[n].reshape(-1), S2[n].reshape(-1))])
    assume = [r_member(sp, x1, S1), r_member(sp, x2, S2), same_flat]

    def rp(res, tr=tr, S1=S1, S2=S2):
        (sp_c, a), _ = model_args(tr, S1, res)
        (_, b), _ = model_args(tr, S2, res)
        fa, fb = np.asarray(sp_c.flatten_sample(a)), np.asarray(sp_c.flatten_sample(b))
        la, lb = jax.tree_util.tree_leaves(a), jax.tree_util.tree_leaves(b)
        differ = any(not np.array_equal(np.asarray(u), np.asarray(v)) for u, v in zip(la, lb))
        return (differ and np.array_equal(fa, fb) and py_member(sp_c, a) and py_member(sp_c, b)), \
            {"space": repr(sp_c), "sample_a": describe(a), "sample_b": describe(b), "flat_a": fa.tolist(), "flat_b": fb.tolist()}
    ck.prove(f"{fam}.flatten_injective@{sp_label(sp)}", assume, same_x, replay=rp)
    if sp.flat_size >= 2:
        ck.witness(f"witness.{fam}.two_members_same_flat@{sp_label(sp)}", assume)
        # negative control: the first flat_size-1 numbers alone do not determine the sample
        part = [r_member(sp, x1, S1), r_member(sp, x2, S2), conj([core.eq_elem(a, b) for a, b in zip(f1[:-1], f2[:-1])])]
        if not all(isinstance(s_, Discrete) and s_.n == 1 for s_ in [sp]):
            ck.control(f"control.{fam}.prefix_determines_sample@{sp_label(sp)}", part, same_x)


def check_flatten_dict_orders(ck, sp):
    """A Dict member is a mapping: membership compares key sets, so the same space has members whose keys were inserted in another order.  The flat
    vector must still determine the sample: a member in the space's key order and a member in the REVERSED key order that flatten to the same vector
    are the same mapping."""
    from collections import OrderedDict
    x = example_member(sp)
    xr = OrderedDict(reversed(list(x.items())))
    tr = trace(flatten_fn, sp, x, argnames=["sp", "x"], label="Dict.flatten_sample (member in the space's key order)")
    trr = trace(flatten_fn, sp, xr, argnames=["sp", "x"], label="Dict.flatten_sample (member with reversed key order)")
    tr._argnames = ["sp", "x"]
    trr._argnames = ["sp", "x"]
    ck.encoded(trr)
    if len(tr.out_avals) != 1 or len(trr.out_avals) != 1 or tuple(trr.out_avals[0].shape) != (sp.flat_size,):
        ck.fact(f"Dict.flatten_size.any_key_order@{sp_label(sp)}", False, f"reversed-order member flattens to {[str(a) for a in trr.out_avals]}, flat_size={sp.flat_size}")
        return
    it = Interp()
    S1 = tr.symbols(it, prefix="p_")
    S2 = trr.symbols(it, prefix="q_")
    for n in trr.in_names:
        if n.startswith("sp"):
            S2[n] = S1[n]
    f1 = tr.run(it, S1)[tr.out_names[0]]
    f2 = trr.run(it, S2)[trr.out_names[0]]
    x1, x2 = tree_of(tr, S1, "x"), tree_of(trr, S2, "x")
    names = [n for n in tr.in_names if n.startswith("x_")]
    same_flat = conj([core.eq_elem(a, b) for a, b in zip(f1, f2)])
    same_map = conj([core.eq_elem(a, b) for n in names for a, b in zip(S1[n].reshape(-1), S2[n].reshape(-1))])
    assume = [r_member(sp, x1, S1), r_member(sp, x2, S2), same_flat]

    def rp(res):
        (sp_c, a), _ = model_args(tr, S1, res)
        (_, b), _ = model_args(trr, S2, res)
        fa, fb = np.asarray(sp_c.flatten_sample(a)), np.asarray(sp_c.flatten_sample(b))
        differ = any(not np.array_equal(np.asarray(a[k]), np.asarray(b[k])) for k in a) if not any(isinstance(a[k], (dict, tuple)) for k in a) else \
            any(not np.array_equal(np.asarray(u), np.asarray(v)) for k in a for u, v in zip(jax.tree_util.tree_leaves(a[k]), jax.tree_util.tree_leaves(b[k])))
        return (differ and np.array_equal(fa, fb) and py_member(sp_c, a) and py_member(sp_c, b)), \
            {"space": repr(sp_c), "member_in_space_order": describe(a), "member_in_reversed_order": describe(b), "flat_a": fa.tolist(), "flat_b": fb.tolist()}
    ck.prove(f"Dict.flatten_injective.any_key_order@{sp_label(sp)}", assume, same_map, replay=rp)
    ck.witness(f"witness.Dict.reordered_member@{sp_label(sp)}", [r_member(sp, x2, S2)])


def sec_flatten(ck):
    for sp in member_spaces(ck.thorough):
        with ck.section(f"flatten {sp_label(sp)}"):
            check_flatten(ck, sp)
    for sp in [Dict({"a": Discrete(3), "b": Discrete(3)}), Dict({"a": MultiDiscrete((2, 2)), "b": MultiBinary(2)})] + \
            ([Dict({"p": Box(0.0, 1.0), "q": Box(0.0, 1.0), "r": Discrete(2)})] if ck.thorough else []):
        with ck.section(f"flatten-orders {sp_label(sp)}"):
            check_flatten_dict_orders(ck, sp)


# ===================================================================== Box.__eq__ (Python bool computed from array comparisons: path-forking trace)
def eq_fn(a, b):
    return a == b


def check_box_eq(ck, shape):
    a, b = Box(jnp.zeros(shape), jnp.ones(shape)), Box(jnp.zeros(shape), jnp.ones(shape))
    paths = explore(eq_fn, a, b, argnames=["a", "b"], label="Box.__eq__")
    first = next(tr for _, tr, _ in paths if tr is not None)
    ck.encoded(first)
    it = fp_interp()
    S = first.symbols(it)
    bounds = [S[n] for n in ("a_low", "a_high", "b_low", "b_high")]
    assume = [z3.Not(z3.fpIsNaN(e)) for arr in bounds for e in arr.reshape(-1)]
    same = conj([z3.fpEQ(x, y) for p, q in (("a_low", "b_low"), ("a_high", "b_high")) for x, y in zip(S[p].reshape(-1), S[q].reshape(-1))])
    goals, pcs = [], []
    for dec, tr, exc in paths:
        o = tr.run(it, S)
        conds = [o[n][()] for n in tr.out_names][:len(dec)]
        pc = conj([c if d else neg(c) for c, d in zip(conds, dec)])
        pcs.append(pc)
        if exc is not None:
            goals.append(neg(pc))
            continue
        r = tr.out_static[0]
        if not isinstance(r, bool):
            goals.append(neg(pc))       # == must answer with a Python bool
            continue
        goals.append(implies(pc, same if r else neg(same)))

    def rp(res, first=first, S=S):
        (a_c, b_c), _ = model_args(first, S, res)
        want = bool(np.array_equal(np.asarray(a_c.low), np.asarray(b_c.low)) and np.array_equal(np.asarray(a_c.high), np.asarray(b_c.high)))
        got = a_c == b_c
        return (got is not want), {"a": repr(a_c), "b": repr(b_c), "real_eq": repr(got), "equal_by_statement": want}
    ck.prove(f"Box.eq_iff_same@Box{shape}", assume, conj([disj(pcs)] + goals), replay=rp)
    ck.control(f"control.Box.eq_compares_low_only@Box{shape}", assume,
               conj([implies(pc, conj([z3.fpEQ(x, y) for x, y in zip(S["a_low"].reshape(-1), S["b_low"].reshape(-1))]) if tr.out_static[0] else True)
                     for pc, (dec, tr, exc) in zip(pcs, paths) if exc is None] +
                    [implies(conj([z3.fpEQ(x, y) for x, y in zip(S["a_low"].reshape(-1), S["b_low"].reshape(-1))]),
                             disj([pc for pc, (dec, tr, exc) in zip(pcs, paths) if exc is None and tr.out_static[0]]))]))
    # boxes of different shape are unequal whatever their bounds (paths taken on a constant condition are infeasible)
    other = Box(jnp.zeros(shape + (1,)), jnp.ones(shape + (1,)))
    paths2 = explore(eq_fn, a, other, argnames=["a", "b"], label="Box.__eq__")
    first2 = next(tr for _, tr, _ in paths2 if tr is not None)
    it2 = fp_interp()
    S2 = first2.symbols(it2)
    goals2, pcs2 = [], []
    for dec, tr, exc in paths2:
        o = tr.run(it2, S2)
        conds = [o[n][()] for n in tr.out_names][:len(dec)]
        pc = conj([c if d else neg(c) for c, d in zip(conds, dec)])
        pcs2.append(pc)
        if exc is not None or tr.out_static[0] is not False:
            goals2.append(neg(pc))

    def rp2(res, first2=first2, S2=S2):
        (a_c, b_c), _ = model_args(first2, S2, res)
        got = a_c == b_c
        return (got is not False), {"a": repr(a_c), "b": repr(b_c), "real_eq": repr(got), "equal_by_statement": False}
    ck.prove(f"Box.eq_iff_same@Box{shape}_vs_Box{shape + (1,)}", [], conj([disj(pcs2)] + goals2), replay=rp2)
    ck.fact(f"Box.eq_iff_same@Box{shape}_vs_other_kinds", (a == Discrete(2)) is False and (a == MultiBinary(2)) is False and (a == 0) is False,
            "isinstance dispatch; no array values involved")


# ===================================================================== Box.__hash__ agrees with Box.__eq__ (the real method body run on symbolic array proxies)
class SymBytes:
    """result of .tobytes() on a symbolic float32 array: the IEEE-754 bit patterns of its elements, in order"""

    def __init__(self, bits, shape):
        self.bits, self.shape = list(bits), tuple(shape)


class SymArr:
    """stand-in for a float32 array attribute (low / high) while the REAL __hash__ body runs: element-wise IEEE arithmetic with Python numbers and other
    proxies, .tobytes() -> SymBytes; anything else the body might do with an array raises (-> inconclusive, never a wrong verdict)"""

    def __init__(self, o, elems):
        self.o, self.e = o, np.asarray(elems, dtype=object)

    shape = property(lambda self: self.e.shape)
    ndim = property(lambda self: self.e.ndim)
    size = property(lambda self: self.e.size)
    dtype = np.dtype(np.float32)

    def _bin(self, other, f, swap=False):
        oe = other.e if isinstance(other, SymArr) else np.full(self.e.shape, self.o.lift(np.float32(other), np.float32), dtype=object)
        out = np.empty(self.e.shape, dtype=object)
        for i in np.ndindex(*self.e.shape):
            out[i] = f(oe[i], self.e[i]) if swap else f(self.e[i], oe[i])
        return SymArr(self.o, out)

    def __add__(self, other): return self._bin(other, self.o.add)
    def __radd__(self, other): return self._bin(other, self.o.add, swap=True)
    def __sub__(self, other): return self._bin(other, self.o.sub)
    def __rsub__(self, other): return self._bin(other, self.o.sub, swap=True)
    def __mul__(self, other): return self._bin(other, self.o.mul)
    def __rmul__(self, other): return self._bin(other, self.o.mul, swap=True)
    def __neg__(self): return SymArr(self.o, np.vectorize(self.o.neg, otypes=[object])(self.e))
    def __pos__(self): return self
    def ravel(self): return SymArr(self.o, self.e.reshape(-1))
    flatten = ravel
    def reshape(self, *shape): return SymArr(self.o, self.e.reshape(*shape))
    def tobytes(self): return SymBytes([z3.fpToIEEEBV(self.o.zf(x)) for x in self.e.reshape(-1)], self.e.shape)

    def __array__(self, *a, **k):
        raise Unsupported("Box.__hash__ converts a bound to a NumPy array: not modelled")

    def __jax_array__(self):
        raise Unsupported("Box.__hash__ passes a bound to a jax function: not modelled")

    def __iter__(self):
        raise Unsupported("Box.__hash__ iterates over a bound: not modelled")


def hash_key_of(box_cls, o, low, high):
    """run the real `box_cls.__hash__` body with `self.low` / `self.high` replaced by proxies and the builtin `hash` capturing its argument"""
    import types
    captured = []

    def capture(x):
        captured.append(x)
        return 0
    f = box_cls.__hash__
    g = dict(f.__globals__)
    g["hash"] = capture
    f2 = types.FunctionType(f.__code__, g, f.__name__, f.__defaults__, f.__closure__)

    class Proxy:
        pass
    pr = Proxy()
    pr.low, pr.high = SymArr(o, low), SymArr(o, high)
    pr.shape = tuple(np.asarray(low, dtype=object).shape)
    f2(pr)
    if len(captured) != 1:
        raise Unsupported(f"Box.__hash__ calls hash() {len(captured)} times")
    return captured[0]


def same_key(x, y):
    if isinstance(x, tuple) and isinstance(y, tuple):
        return conj([same_key(a, b) for a, b in zip(x, y)]) if len(x) == len(y) else False
    if isinstance(x, SymBytes) and isinstance(y, SymBytes):
        return conj([a == b for a, b in zip(x.bits, y.bits)]) if len(x.bits) == len(y.bits) else False
    if isinstance(x, (SymBytes, SymArr)) or isinstance(y, (SymBytes, SymArr)):
        raise Unsupported("Box.__hash__ hashes something other than bytes of the bounds")
    return x == y


def check_box_hash(ck, shape):
    a, b = Box(jnp.zeros(shape), jnp.ones(shape)), Box(jnp.zeros(shape), jnp.ones(shape))
    paths = explore(eq_fn, a, b, argnames=["a", "b"], label="Box.__eq__")
    first = next(tr for _, tr, _ in paths if tr is not None)
    it = fp_interp()
    S = first.symbols(it)
    assume = [z3.Not(z3.fpIsNaN(e)) for n in ("a_low", "a_high", "b_low", "b_high") for e in S[n].reshape(-1)]
    ka, kb = hash_key_of(Box, it.o, S["a_low"], S["a_high"]), hash_key_of(Box, it.o, S["b_low"], S["b_high"])
    same = same_key(ka, kb)
    goals = []
    for dec, tr, exc in paths:
        if exc is not None or tr.out_static[0] is not True:
            continue
        o = tr.run(it, S)
        conds = [o[n][()] for n in tr.out_names][:len(dec)]
        goals.append(implies(conj([c if d else neg(c) for c, d in zip(conds, dec)]), same))

    def rp(res, first=first, S=S):
        (a_c, b_c), _ = model_args(first, S, res)
        eq, ha, hb = (a_c == b_c), hash(a_c), hash(b_c)
        return (eq is True and ha != hb), {"a": repr(a_c), "b": repr(b_c), "a == b": repr(eq), "hash(a)": ha, "hash(b)": hb,
                                           "low_bits": [np.asarray(x.low, np.float32).tobytes().hex() for x in (a_c, b_c)], "high_bits": [np.asarray(x.high, np.float32).tobytes().hex() for x in (a_c, b_c)]}
    ck.prove(f"Box.eq_implies_same_hash@Box{shape}", assume, conj(goals), replay=rp)
    ck.witness(f"witness.Box.equal_boxes_exist@Box{shape}", assume + [conj([z3.fpEQ(x, y) for p_, q_ in (("a_low", "b_low"), ("a_high", "b_high")) for x, y in zip(S[p_].reshape(-1), S[q_].reshape(-1))])])


def sec_box_eq(ck):
    for shape in [(), (2,)]:
        with ck.section(f"Box.__hash__ {shape}"):
            check_box_hash(ck, shape)
    for shape in ([(), (2,)] if not ck.thorough else [(), (2,), (2, 2), (4,)]):
        with ck.section(f"Box.__eq__ {shape}"):
            check_box_eq(ck, shape)


# ===================================================================== __eq__ / __hash__ by CrossHair
def xhair_start(ck):
    L, NH = (3, 4) if ck.thorough else (2, 3)
    r = c14_xhair.Runner(os.environ.get("VERIF_SCRATCH", os.path.join(core.ROOT, ".scratch")), 420 if ck.thorough else 60, L=L, NH=NH)
    r.start([n for n, oid in c14_xhair.CONDITIONS.items() if ck.only is None or oid == ck.only])
    return r


def xhair_collect(ck, r):
    names = list(r.procs)
    results = [r.collect(n) for n in names]
    for name, (verdict, info, dt) in zip(names, results):
        oid = c14_xhair.CONDITIONS[name]
        ob = ck._new(oid)
        ob.solver = "crosshair (z3-backed symbolic execution of the Python source)"
        ob.time = dt
        ck.queries += 1
        info["condition"] = name
        info["contract"] = r.post_of(name)
        if name.startswith("control_"):
            ob.kind = "control"
            if verdict == "counterexample":
                ob.status = "sat (as required)"
            else:
                ob.status = verdict
                ob.detail = "a deliberately wrong contract must be refuted with a counterexample that replays"
                ck.inconclusive.append(ob)
                ck.log(f"INCONCLUSIVE {oid}: crosshair negative control came back {verdict}")
            continue
        if verdict == "confirmed":
            ob.status = "unsat"
            ob.detail = "Confirmed over all paths"
        elif verdict == "counterexample":
            ck._violation(ob, info, replay_info=info, reproduced=True)
        else:
            ob.status = "sat-unreproduced" if verdict == "unreproduced" else "unknown"
            ob.detail = str(info)[:1500]
            ck.inconclusive.append(ob)
            ck.log(f"INCONCLUSIVE {oid}: crosshair verdict {verdict}: {ob.detail[:400]}")
        if len(ck.samples) < 8 and verdict in ("confirmed", "counterexample") and name in ("tuple_eq", "dict_eq", "multidiscrete_hash"):
            ck.samples.append({"obligation": oid, "kind": "crosshair", "status": ob.status, "contract": info["contract"], "output": info.get("crosshair_output")})
    ck.bound(crosshair=r.bounds)
    r.cleanup()


# ===================================================================== foreign Python types (informational)
def foreign_types_note(ck):
    rows = []
    spaces = [Discrete(3), MultiDiscrete((3, 2)), MultiBinary(2), Box(0.0, 1.0), Tuple((Discrete(2),)), Dict({"a": Discrete(2)})]
    for sp in spaces:
        for x in ["a", None, [[1], [1, 2]], {"a": 0}, object(), 1 + 2j]:
            try:
                r = sp.contains(x)
                out = "rejected" if (np.shape(r) == () and not bool(r)) else f"returned {r!r}"
            except Exception as ex:  # noqa: BLE001
                out = f"raised {type(ex).__name__}"
            if out != "rejected":
                rows.append(f"{sp_label(sp)}.contains({x!r:.20}) {out}")
    ck.notes.append("foreign Python types (fixed list, informational only, not part of the solver claim): " +
                    ("all rejected with a scalar False" if not rows else "; ".join(rows)))
    if rows:
        ck.log("NOTE (informational, not an obligation): " + "; ".join(rows))


def gym_roundtrip_instances(ck):
    """`equality ... survives a round trip through the corresponding Gymnasium space`: the conversion runs Gymnasium / NumPy C code on concrete values, which
    no symbolic engine here reaches.  Recorded as object-level facts on a fixed list of instances (every boundedness class of Box bounds per element, shapes,
    every space kind, nesting; Dict keys in and out of Gymnasium's sorted order) -- an enumeration of the listed instances, not a solver verdict."""
    from lerax.compatibility.gym import gym_space_to_lerax_space, lerax_to_gym_space
    inf = jnp.inf
    boxes = {"bounded": Box(-1.0, 2.0, shape=(2,)), "scalar": Box(0.0, 1.0), "unbounded": Box(-inf, inf, shape=(2,)), "bounded_below": Box(jnp.array([0.5, -3.0]), jnp.array([inf, inf])),
             "bounded_above": Box(jnp.array([-inf, -inf]), jnp.array([-0.5, 3.0])), "mixed": Box(jnp.array([-inf, 0.0, -1.0, -inf]), jnp.array([inf, inf, 1.0, 2.0])), "matrix": Box(-jnp.ones((2, 3)), jnp.ones((2, 3)))}
    spaces = dict({f"Box[{k}]": v for k, v in boxes.items()}, **{"Discrete(3)": Discrete(3), "MultiDiscrete(2,3)": MultiDiscrete((2, 3)), "MultiBinary(3)": MultiBinary(3),
                  "Tuple(Box[mixed],Discrete)": Tuple((boxes["mixed"], Discrete(2))), "Dict(sorted keys)": Dict({"a": boxes["unbounded"], "b": Discrete(2)}),
                  "Dict(unsorted keys)": Dict({"z": boxes["bounded_below"], "a": MultiBinary(2)}), "Dict(nested)": Dict({"k": Tuple((boxes["scalar"], Dict({"y": Discrete(4), "x": boxes["bounded_above"]})))})})
    for name, sp in spaces.items():
        try:
            back = gym_space_to_lerax_space(lerax_to_gym_space(sp))
            eq = (back == sp) is True and (sp == back) is True
            hs = hash(back) == hash(sp)
            ck.fact(f"gym_roundtrip.eq_and_hash@{name}", eq and hs, f"back == original: {eq}; same hash: {hs}; {sp!r} -> {back!r}"[:400])
        except Exception as ex:  # noqa: BLE001
            ck.fact(f"gym_roundtrip.eq_and_hash@{name}", False, f"{type(ex).__name__}: {str(ex)[:200]}")


def main():
    ck = Check("C14", "Spaces: exact membership, member samples, coherent equality")
    ck.mode = "FP32 (contains, canonical, Box.__eq__); REAL (sample, flatten_sample); CrossHair (other __eq__/__hash__)"
    ck.bound(leaf_elements="<= 6 per leaf", nesting_depth=2, arity="<= 3",
             integer_candidates=f"|x| <= 2^24 (exactly representable in float32)",
             box_bounds="symbolic float32 incl. +-inf for contains; canonical(): non-NaN, low <= high, low < +inf, high > -inf, finite bounds |b| <= 2^126; "
                        "sample(): every combination of finite/infinite bound per element, finite bounds symbolic reals with low <= high",
             mask="Discrete mask with at least one allowed index")
    ck.stub(*stubs.STUB_NOTES)
    ck.out("Box.__hash__ beyond `equal boxes hash equal` (decided by running the real method body on symbolic array proxies: arithmetic with Python numbers and .tobytes(), bytes = IEEE bit patterns; any other use of the bounds makes the obligation inconclusive); hash collisions between unequal boxes are allowed",
           "Gymnasium round trip gym_space_to_lerax_space(lerax_to_gym_space(s)) == s beyond the listed instances (gym_roundtrip.*: object-level facts on a fixed list, the conversion runs Gymnasium/NumPy C code that no symbolic engine here reaches)",
           "float32 rounding and overflow inside Box.sample() (decided over the reals per boundedness class) and overflow of low+high in Box.canonical() (finite bounds limited to 2^126)",
           "subnormal float32 values (XLA on CPU flushes them to zero): Box bounds in canonical() are zero, normal or infinite; contains is decided in IEEE semantics",
           "statistical properties of sample() (uniformity, independence)",
           "rejection of foreign Python types (str, None, ragged lists, plain dict): exercised on a fixed list and reported as a note only",
           "whether a plain dict / a Dict with the same mapping in another key order is a member / equal: left open by the statement")
    ck.assume_note("Box bounds are not NaN (contains needs no assumption on bounds at all)")
    xr = None
    with ck.section("crosshair start"):
        xr = xhair_start(ck)
    sec_contains_leaf(ck)
    sec_contains_nested(ck)
    sec_members(ck)
    sec_flatten(ck)
    sec_box_eq(ck)
    with ck.section("gymnasium round trip"):
        gym_roundtrip_instances(ck)
    with ck.section("foreign types"):
        foreign_types_note(ck)
    if xr is not None:
        with ck.section("crosshair collect"):
            xhair_collect(ck, xr)
    ck.finish("contains of Box/Discrete/MultiDiscrete/MultiBinary and of nested Tuple/Dict spaces is traced once per Python branch decision (path forking on "
              "bool(tracer)) and interpreted over z3 float32/integer/boolean terms with the candidate (incl. NaN, +-inf) and the Box bounds symbolic; on every "
              "path the result must be a scalar boolean (read off the IR) equal to the membership predicate of the statement, written independently; "
              "candidate dtype and shape classes are static configurations. sample() (PRNG draws = contract-constrained uninterpreted functions; over the "
              "reals, one query per finite/infinite class of the Box bounds) and canonical() (float32, symbolic bounds) must satisfy the same predicate "
              "(which contains is shown to equal, so this is contains(sample()) / contains(canonical())); Discrete.sample must return an index the mask allows; flatten_sample has flat_size entries "
              "(IR) and is injective on members (2-safety query). __eq__/__hash__ of Discrete/MultiDiscrete/MultiBinary/Tuple/Dict and nestings are decided "
              "by CrossHair over symbolic sizes, arities and keys; Box.__eq__ by a path-forking trace. Counterexamples are re-run on the real classes.")


if __name__ == "__main__":
    main()
