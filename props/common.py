"""helpers shared by the property harnesses"""
import equinox as eqx
import jax
import jax.numpy as jnp
from jax import random as jr

from lerax.callback import CallbackList


def empty_callback():
    return CallbackList(callbacks=[])


class OnPolicyStep:
    @staticmethod
    def example(env, pol, callback=None, num_envs=1):
        """abstract example of an on-policy step state (shapes only)"""
        from lerax.algorithm.on_policy import AbstractOnPolicyStepState
        cb = callback if callback is not None else empty_callback()
        if num_envs == 1:
            return jax.eval_shape(lambda k: AbstractOnPolicyStepState.initial(env, pol, cb, k), jr.key(0))
        return jax.eval_shape(lambda k: eqx.filter_vmap(AbstractOnPolicyStepState.initial, in_axes=(None, None, None, 0))(env, pol, cb, jr.split(k, num_envs)), jr.key(0))
