"""helpers shared by the property harnesses"""
import equinox as eqx
import jax
import jax.numpy as jnp
from jax import random as jr

from lerax.callback import CallbackList


def empty_callback():
    return CallbackList(callbacks=[])


class OnPolicyStep:
    @staticmethod
    def example(env, pol, callback=None, num_envs=1):
        """abstract example of an on-policy step state (shapes only)"""
        from lerax.algorithm.on_policy import AbstractOnPolicyStepState
        cb = callback if callback is not None else empty_callback()
        if num_envs == 1:
            return jax.eval_shape(lambda k: AbstractOnPolicyStepState.initial(env, pol, cb, k), jr.key(0))
        return jax.eval_shape(lambda k: eqx.filter_vmap(AbstractOnPolicyStepState.initial, in_axes=(None, None, None, 0))(env, pol, cb, jr.split(k, num_envs)), jr.key(0))


def concrete_spaces(tr, interp, **objs):
    """`given` map for Traced.symbols: every input leaf whose name contains 'space' gets the concrete value it has in the example objects
    (prefix -> object), e.g. concrete_spaces(tr, it, st_env=env, st_policy=pol, st_target_policy=pol).  Declared spaces are static configuration."""
    import jax
    import numpy as np
    from jaxsmt.trace import leaf_names, _isleaf
    table = {}
    for prefix, obj in objs.items():
        names = leaf_names(obj, prefix=prefix + "_")
        leaves = [l for l in jax.tree_util.tree_leaves(obj) if _isleaf(l)]
        for n, l in zip(names, leaves):
            table[n.rstrip("_")] = l
    given = {}
    for n, av in zip(tr.in_names, tr.in_avals):
        if "space" in n and n in table and hasattr(table[n], "shape") and not isinstance(table[n], jax.ShapeDtypeStruct):
            given[n] = interp.lift(np.asarray(table[n]), av.dtype)
    return given
